# C07 — Newton-Raphson: generator, exact-rational oracle, comparison.
from fractions import Fraction
import math
from tools.lib import Case, f2hex, hex2f, same_float_tok, cps
from tools.props.c06 import (pmul, from_roots, pderiv, peval, pabs_eval, representable, enc_spoly, enc_ipoly,
                             terms_of_coefs, Tk, parse_poly, dense_of, fin, q4, X, EPS, TINY, TOLS,
                             same_line, bridge_compare, sim_nrm, extra_evidence)

ID = 'C07'
RULE = ('soundness half: polynomials of degree 0..7 (random integer / unit / wide coefficients, constants, the zero '
        'polynomial) x random starts x tolerances 1e-1..1e-12 x caps {0,1,2,5,60,100,200,1200,3000} x both modes x both types; '
        'convergence half: real-rooted polynomials of degree 1..6 from separated dyadic roots (root 0 included as extreme '
        'and as interior root), power-of-two rescalings, starts outside the root hull on either side from 1.001 to 2^10 '
        'hull widths away, both modes (Extrema: 840 * integral, so that the derivative is exact); malformed stream (NaN / inf '
        'starts and tolerances, tolerance <= 0, two-variable and unbound-variable IntermediatePolynomials). distinct = '
        'distinct case line; non-trivial = the target is not constant and the start is finite')
TRUSTED = ['extraction of the float instance (ExtrOcamlBasic, ExtrOCamlFloats, ExtrOCamlInt63) and ocaml/c07.ml',
           'Rust harness harness/src/bin/c07.rs', 'exact-rational oracle tools/props/c07.py',
           'IntermediatePolynomial: f64::powf (libm) is modelled by square-and-multiply; the relation goes through a Python copy of the '
           'model that is checked bit for bit against the extracted model (square-and-multiply) and against the crate (libm pow '
           'called through ctypes)']
ASSUMPTIONS = ['theorems are about the R instance (exact arithmetic); float behaviour is measured by the bit-for-bit comparison',
               'the tolerance is a percentage: "tol% * |x|" is tol/100*|x|',
               'residual bound: max|g\'\'| over [x - d, x + d], d = tol/100*|x|, bounded by sum |g_k| k(k-1) (|x|+d)^(k-2); '
               '"plus rounding" = 8(n+3) eps sum (k+1)|g_k| (|x|+d)^k',
               'convergence half is demanded for cap >= 200 and 1e-12 <= tol <= 1e-1 on targets whose non-zero coefficients lie '
               'in [2^-20, 2^20] with roots separated by at least a quarter of the hull scale']

CAPS = [0, 1, 2, 5, 60, 100, 200, 1200, 3000]
LO_SCALE = Fraction(1, 2 ** 20)
HI_SCALE = Fraction(2 ** 20)


def mk_line(poly, x0, cap, tol, mode):
    return 'nr %s %s %d %s %d' % (poly, f2hex(x0), cap, f2hex(tol), mode)


def parse(case):
    t = Tk(case.line)
    t.w()
    d = parse_poly(t)
    d['x0'] = t.f(); d['cap'] = t.n(); d['tol'] = t.f(); d['mode'] = t.n()
    return d


def target_of(d):
    p = dense_of(d)
    if p is None:
        return None
    if isinstance(p, str):
        return p if p == 'TooManyVariables' else None
    return pderiv(p) if d['mode'] == 1 else p


def describe(case):
    d = parse(case)
    out = {'type': 'SimplePolynomial' if d['ptype'] == 's' else 'IntermediatePolynomial',
           'x_init': d['x0'], 'itermax': d['cap'], 'tol': d['tol'], 'mode': 'Extrema' if d['mode'] else 'Root'}
    if d['ptype'] == 's':
        out['coefficients_low_to_high'] = d['coefs']
    else:
        out['terms'] = d['terms']
        out['variables'] = d['vars']
    if case.meta:
        out['meta'] = case.meta
    return out


def nontrivial(case, impl):
    d = parse(case)
    g = target_of(d)
    return fin(d['x0']) and isinstance(g, list) and len([c for c in g[1:] if c != 0]) > 0


# ----------------------------------------------------------------- oracle
def second_order_bound(g, x, tol):
    """(M/2) * d^2 and the rounding allowance, d = tol/100*|x|, all exact"""
    ax = abs(x)
    d = tol / 100 * ax
    X1 = ax + d
    g2 = pderiv(pderiv(g))
    M = pabs_eval(g2, X1)
    rounding = 8 * (len(g) + 3) * EPS * sum((k + 1) * abs(c) * X1 ** k for k, c in enumerate(g)) + TINY
    # underflow is rounding too: a power x^k below the normal range is computed with an absolute error of up
    # to about 2^-1022 (flush to zero / subnormal), which the coefficient then multiplies (only matters for
    # astronomically large coefficients, e.g. 1e300*x^3 near x = 1e-108 evaluates to exactly 0)
    rounding += sum((k + 1) * abs(c) for k, c in enumerate(g)) * Fraction(1, 2 ** 1022)
    return M / 2 * d * d, rounding


RESID = 'Ok(x) violates the second-order residual bound (the last step was not below the relative tolerance)'
CONV = 'real-rooted separated polynomial, start outside the root hull, cap >= 200: the extreme root is not returned to within degree*tol'


def convergence_claim(case, d, g):
    """(root, degree) if the convergence half applies, checked exactly against the meta data"""
    m = case.meta
    if not m or 'roots' not in m:
        return None
    roots = sorted(Fraction(r) for r in m['roots'])
    deg = len(g) - 1
    while deg > 0 and g[deg] == 0:
        deg -= 1
    if deg < 1 or len(set(roots)) != deg or len(roots) != deg:
        return None
    if any(peval(g, r) != 0 for r in roots):
        return None
    x0 = d['x0']
    if not fin(x0) or not fin(d['tol']):
        return None
    if d["cap"] < 200 or not (1e-12 <= d["tol"] <= 1e-1):
        return None
    for c in g:
        if c != 0 and not (LO_SCALE <= abs(c) <= HI_SCALE):
            return None
    fx0 = Fraction(x0)
    scale = max(abs(roots[0]), abs(roots[-1]), roots[-1] - roots[0])
    if deg > 1 and min(b - a for a, b in zip(roots, roots[1:])) * 4 < scale / deg:
        return None
    if abs(fx0) > HI_SCALE:
        return None
    if fx0 > roots[-1]:
        r = roots[-1]
    elif fx0 < roots[0]:
        r = roots[0]
    else:
        return None
    # the requested relative step must be attainable in floating point: near the root the evaluation of the
    # expanded polynomial carries a rounding noise of about eps * sum |c_k r^k|, i.e. a step noise of that over
    # |g'(r)|; a tolerance below (a generous multiple of) it cannot be demanded ("plus rounding")
    if r != 0:
        noise = 8 * (deg + 3) * EPS * sum(abs(c) * abs(r) ** k for k, c in enumerate(g))
        slope = abs(peval(pderiv(g), r))
        if slope == 0 or Fraction(d['tol']) / 100 * abs(r) < 4 * noise / slope:
            return None
    return r, deg


def judge(case, impl):
    d = parse(case)
    if impl == 'panic' or impl.startswith('abort') or impl.startswith('bad'):
        return 'panic / abort instead of a value or an error value'
    g = target_of(d)
    if isinstance(g, str):
        return None if impl == 'err FunctionError:' + g else 'expected FunctionError:%s, got %s' % (g, impl)
    if impl.startswith('ok '):
        tok = impl[3:]
        if tok == 'nan':
            return 'Ok(NaN)'
        x = hex2f(tok)
        if not fin(x):
            return 'Ok(non-finite)'
    elif not impl.startswith('err '):
        return 'malformed output ' + impl
    elif impl not in ('err MaxIterationsReached', 'err FunctionError:VariableNotFound'):
        return 'unexpected error kind ' + impl
    if g is None:
        return None
    if impl.startswith('err FunctionError'):
        return 'FunctionError on a univariate polynomial'
    tol = d['tol']
    if impl.startswith('ok ') and fin(tol):
        fx = Fraction(x)
        main, rounding = second_order_bound(g, fx, Fraction(tol))
        if abs(peval(g, fx)) > main + rounding:
            return RESID
    claim = convergence_claim(case, d, g)
    if claim:
        r, deg = claim
        if not impl.startswith('ok '):
            return CONV
        fx = Fraction(x)
        allow = deg * Fraction(tol) / 100 * max(abs(fx), abs(r)) + 64 * deg * EPS * max(abs(fx), abs(r)) + TINY
        if abs(fx - r) > allow:
            return CONV
    return None


def known(case, impl, clause):
    """listed in known_findings.d/C07.json; each keyed on an input class read off the case"""
    if clause != RESID or not impl.startswith('ok '):
        return None
    d = parse(case)
    g = target_of(d)
    # F-C07-OVERFLOW: a coefficient of the target at 2^1000 or above (near f64::MAX)
    if any(abs(c) >= Fraction(2) ** 1000 for c in g):
        return ('F-C07-OVERFLOW the evaluation of the target or of its derivative overflows, the quotient g/g\' rounds to '
                '0 or to a tiny number, the step test passes and the unchanged start is returned')
    return None


def compare(case, impl, model):
    d = parse(case)
    if d['ptype'] == 's':
        return same_line(impl, model)
    poly = (d['terms'], d['vars'])
    return bridge_compare(lambda pw: sim_nrm(poly, d['x0'], d['cap'], d['tol'], d['mode'], pw), impl, model)


# ----------------------------------------------------------------- generator
def separated_roots(rng, deg):
    """distinct multiples of 1/2 in [-6, 6], at least 1 apart"""
    while True:
        rs = sorted(set(Fraction(rng.randint(-12, 12), 2) for _ in range(deg)))
        if len(rs) == deg and all(b - a >= 1 for a, b in zip(rs, rs[1:])):
            return rs


def gen(rng, tier):
    n_conv = 700 if tier == 'quick' else 14000
    n_arb = 900 if tier == 'quick' else 18000
    n_bad = 150 if tier == 'quick' else 2000

    def emit(coefs, x0, cap, tol, mode, cls, ptype=None, meta=None):
        ptype = ptype or rng.choice(['s', 's', 'i'])
        if ptype == 's':
            poly = enc_spoly(coefs)
        else:
            ts = terms_of_coefs(coefs, rng)
            vs = [X] if (any(v for _, v in ts) or rng.random() < 0.5) else []
            poly = enc_ipoly(ts, vs)
        return Case(mk_line(poly, x0, cap, tol, mode), cls + '/' + ptype, meta)

    fixed = [
        ([0.0, -1.0, 1.0], -1.0, 100, 1e-4, 0, 'fixed', ['0', '1']),          # x^2 - x from -1  (F8)
        ([0.0, 1.0, 0.0, 1.0], 1.0, 100, 1e-4, 0, 'fixed', None),            # x^3 + x from 1   (F8)
        ([-4.0, 0.0, 1.0], 2.0, 100, 1e-4, 0, 'fixed', None),
        ([4.0, 0.0, 1.0], 2.0, 100, 1e-4, 0, 'fixed', None),
        ([0.0, 4.0, -1.0], 0.0, 100, 1e-4, 1, 'fixed', None),
        ([-1.5, 6.0, -3.9, 0.5], 0.0, 100, 1e-4, 0, 'fixed', None),
        ([1.0, 0.0, 1.0], 1.0, 100, 200.0, 0, 'hugetol', None),              # first iterate 0, tol > 100 (repaired 8dfb6bc)
        ([1.0, 0.0, 1.0], 1.0, 100, 50.0, 0, 'hugetol', None),
        ([0.0, 2.0], 3.0, 100, 1e-4, 0, 'fixed', ['0']),
        ([], 1.0, 100, 1e-4, 0, 'deg0', None),
        ([5.0], 1.0, 100, 1e-4, 0, 'deg0', None),
        ([5.0], 1.0, 100, 1e-4, 1, 'deg0', None),
        ([5.0, 1.0], 1.0, 100, 1e-4, 1, 'deg0', None),
    ]
    for coefs, x0, cap, tol, mode, cls, roots in fixed:
        for ty in ('s', 'i'):
            yield emit(coefs, x0, cap, tol, mode, cls, ty, {'roots': roots} if roots else None)

    for _ in range(n_conv):
        deg = rng.randint(1, 6)
        roots = separated_roots(rng, deg)
        zero = rng.random()
        if zero < 0.2:                       # 0 as the extreme root on the start side
            shift = roots[-1]
            roots = [r - shift for r in roots]
        elif zero < 0.3:
            shift = roots[0]
            roots = [r - shift for r in roots]
        elif zero < 0.4:                     # 0 as an interior (or any) root
            shift = rng.choice(roots)
            roots = [r - shift for r in roots]
        lead = Fraction(rng.choice([1, 1, -1, 2, -3]))
        t = rng.choice([0, 0, 0, rng.randint(-4, 4)])
        s = rng.choice([0, 0, rng.randint(-8, 8)])
        roots = [r * Fraction(2) ** t for r in roots]
        g = [c * Fraction(2) ** s for c in from_roots(roots, lead)]
        mode = rng.choice([0, 0, 1])
        p = g if mode == 0 else [Fraction(rng.randint(-3, 3))] + [840 * c / (k + 1) for k, c in enumerate(g)]
        exact = all(representable(c) for c in p) and (mode == 0 or all(representable(c * k) for k, c in enumerate(p)))
        hull = max(roots[-1] - roots[0], abs(roots[0]), abs(roots[-1]), Fraction(1, 4) * Fraction(2) ** t)
        dist = hull * Fraction(rng.choice([1, 1, 2, 8, 64, 1024]) * rng.randint(1, 1000), 1000) \
            + hull * Fraction(rng.choice([1, 10, 100]), 1000)
        side = rng.choice(['right', 'left'])
        if zero < 0.2:
            side = 'right'
        elif zero < 0.3:
            side = 'left'
        x0 = float(roots[-1] + dist) if side == 'right' else float(roots[0] - dist)
        inside = rng.random() < 0.1
        if inside:
            x0 = float(roots[0] + (roots[-1] - roots[0]) * Fraction(rng.randint(0, 1000), 1000))
        tol = rng.choice(TOLS)
        cap = rng.choice([200, 200, 1200, 3000, 200, 100, 60, 5, 1, 0])
        meta = {'roots': [str(r) for r in roots], 'side': side} if exact else None
        cls = 'inside' if inside else ('conv0' if zero < 0.3 else 'conv')
        yield emit([float(c) for c in p], x0, cap, tol, mode, cls, None, meta)

    for _ in range(n_arb):
        deg = rng.randint(0, 7)
        style = rng.choice(['int', 'int', 'unit', 'wide', 'roots'])
        if style == 'int':
            coefs = [float(rng.randint(-9, 9)) for _ in range(deg + 1)]
        elif style == 'unit':
            coefs = [rng.uniform(-1, 1) for _ in range(deg + 1)]
        elif style == 'wide':
            coefs = [rng.choice([-1, 1]) * 2.0 ** rng.uniform(-20, 20) for _ in range(deg + 1)]
        else:
            rs = [q4(rng, 12) for _ in range(deg)]
            extra = [Fraction(rng.randint(1, 4)), Fraction(0), Fraction(1)] if rng.random() < 0.3 and deg <= 5 else None
            coefs = [float(c) for c in from_roots(rs, Fraction(rng.choice([1, -1, 2])), extra)]
        x0 = rng.choice([rng.uniform(-10, 10), rng.uniform(-1, 1), float(rng.randint(-5, 5)),
                         rng.choice([-1, 1]) * 2.0 ** rng.uniform(-20, 20), 0.0])
        yield emit(coefs, x0, rng.choice(CAPS), rng.choice(TOLS), rng.choice([0, 0, 1]), 'arbitrary-' + style)

    specials = [float('nan'), float('inf'), float('-inf'), 0.0, -0.0, 5e-324, 1.7976931348623157e308, -1.0]
    for _ in range(n_bad):
        kind = rng.choice(['badstart', 'badtol', 'twovars', 'unbound', 'hugecoef', 'hugetol'])
        coefs = [float(rng.randint(-5, 5)) for _ in range(rng.randint(0, 5))]
        x0 = rng.uniform(-5, 5)
        tol = rng.choice(TOLS)
        cap = rng.choice(CAPS)
        mode = rng.choice([0, 1])
        if kind == 'badstart':
            yield emit(coefs, rng.choice(specials + [1e300, -1e300]), cap, tol, mode, 'malformed-start')
        elif kind == 'badtol':
            yield emit(coefs, x0, cap, rng.choice(specials + [-1e-3]), mode, 'malformed-tol')
        elif kind == 'hugetol':
            # tolerance of 100 percent and more; integer starts so that exact zeros of the iterates occur
            c2 = [float(rng.randint(1, 4)), 0.0, float(rng.randint(1, 4))]
            pick = rng.choice([coefs, c2, [1.0, 0.0, 1.0]])
            yield emit(pick, float(rng.randint(-4, 4)), cap, rng.choice([99.0, 100.0, 100.5, 200.0, 1e3, 1e300]), mode, 'hugetol')
        elif kind == 'hugecoef':
            coefs = [rng.choice(specials + [1e300, -1e300, 1e-300]) for _ in range(rng.randint(1, 5))]
            yield emit(coefs, x0, cap, tol, mode, 'malformed-coefs')
        elif kind == 'twovars':
            ts = [(float(rng.randint(1, 5)), [(X, float(rng.randint(1, 3)))]),
                  (float(rng.randint(1, 5)), [('y', 1.0)])]
            poly = enc_ipoly(ts, rng.choice([[X, 'y'], ['y', X], [X, X]]))
            yield Case(mk_line(poly, x0, cap, tol, mode), 'malformed-twovars/i', None)
        else:
            ts = [(float(rng.randint(1, 5)), [(X, float(rng.randint(1, 3)))]), (2.0, [])]
            poly = enc_ipoly(ts, rng.choice([['y'], [], ['xx']]))
            yield Case(mk_line(poly, x0, cap, tol, mode), 'malformed-unbound/i', None)


# ---- extraction cross-check: the same cases evaluated inside Coq by vm_compute
from tools import xenc
COQ_IMPORTS = 'Base.XEnc Model.Poly Model.Solvers'
XCHECK_N = 200


def coq_term(case):
    # crc thinning below XCHECK_N so that every eligible case is taken, whatever its position in the stream
    if not xenc.keep(case, 1 if case.cls.startswith('fixed') else 12):
        return None
    t = xenc.Toks(case.line)
    if t.word() != 'nr':
        return None
    ty = t.word()
    if ty == 's':
        f, p = 's_nrm', xenc.cq_spoly_rec(t)
    elif ty == 'i':
        f, p = 'i_nrm', xenc.cq_ipoly_rec(t)
    else:
        return None
    x0 = xenc.coq_float(t.fl()) + '%float'
    cap = t.int()
    tol = xenc.coq_float(t.fl()) + '%float'
    mode = t.int() == 1
    if not 0 <= cap <= 5000:
        return None
    return '%s (@%s float FNum %s %s %d%%nat %s %s)' % (xenc.CQ_ENC_SOLVER, f, p, x0, cap, tol, xenc.cq_bool(mode))


def encode_result(case, model_line):
    return xenc.enc_solver_line(model_line)
