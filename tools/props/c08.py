# C08 — Gaussian elimination and triangular substitution: generator, exact-rational oracle, comparison.
from fractions import Fraction
import itertools
import math
from tools.lib import Case, f2hex, hex2f, same_float_tok

ID = 'C08'
EPS = Fraction(1, 2 ** 52)
RULE = ('ge: exhaustive 2x2 with entries -3..3 (2401 matrices) and a sample of 3x3 with entries -2..2, random n<=10 by class '
        '(dense, row-scaled by 2^-30..2^30, rank-deficient: repeated/zero/scaled rows and columns and integer combinations, '
        'zero leading pivots, well-conditioned, 1x1, non-finite) x random right-hand sides x tolerances 1e-15..1e-3, every case '
        'through all container types that can hold its numbers; malformed stream: non-square, mismatched rhs, empty, ragged; '
        'bs/fs: random triangular systems n<=10. distinct = distinct case line; non-trivial = square system with n >= 2 '
        '(or triangular solve with n >= 2)')
TRUSTED = ['extraction of the float instance (ExtrOcamlBasic, ExtrOCamlFloats, ExtrOCamlInt63) and ocaml/c08.ml',
           'Rust harness harness/src/bin/c08.rs (also asserts that all container types give the same text)',
           'exact-rational oracle tools/props/c08.py (fraction-free elimination for rank, exact residuals, exact inverse for the condition number)']
ASSUMPTIONS = ['theorems are about the R instance (exact arithmetic): rounding (backward error, "well-conditioned is never refused") is measured by the oracle, not proved',
               'the residual envelope is 8n*n*eps*(max((|A||x|)_i, s_i*max|x|) + |b_i|), s_i = max_j |a_ij|: invariant under row scaling; '
               'partial pivoting has no a-priori componentwise bound (growth factor), the envelope is the property\'s "few rounding units" made generous']
PROFILES = {'quick': ['debug'], 'thorough': ['debug', 'release']}

TOLS = [1e-15, 1e-14, 1e-13, 1e-12, 1e-10, 1e-9, 1e-6, 1e-5, 1e-3]


# ----------------------------------------------------------------- wire
def mat_line(rows):
    h = len(rows)
    w = len(rows[0]) if rows else 0
    return ('%d %d %s' % (h, w, ' '.join(f2hex(x) for r in rows for x in r))).strip()


def vec_line(v):
    return ('%d %s' % (len(v), ' '.join(f2hex(x) for x in v))).strip()


def ge_case(rows, rhs, tol, cls):
    return Case('ge %s %s %s' % (f2hex(tol), mat_line(rows), vec_line(rhs)), cls, None)


def ragged_case(rows, rhs, tol, cls):
    return Case('ragged %s %d %s %s' % (f2hex(tol), len(rows), ' '.join(vec_line(r) for r in rows), vec_line(rhs)), cls, None)


def parse(case):
    t = case.line.split()
    cmd = t[0]
    k = 1
    tol = None
    if cmd in ('ge', 'ragged'):
        tol = hex2f(t[1])
        k = 2
    rows = []
    if cmd == 'ragged':
        h = int(t[k]); k += 1
        for _ in range(h):
            n = int(t[k]); k += 1
            rows.append([hex2f(x) for x in t[k:k + n]]); k += n
        w = None
    else:
        h = int(t[k]); w = int(t[k + 1]); k += 2
        for _ in range(h):
            rows.append([hex2f(x) for x in t[k:k + w]]); k += w
    n = int(t[k]); k += 1
    rhs = [hex2f(x) for x in t[k:k + n]]
    return cmd, tol, h, w, rows, rhs


def parse_out(s):
    """-> ('ok', [floats]) | ('err', kind) | ('panic', None) | ('other', text)"""
    t = s.split()
    if not t:
        return 'other', s
    if t[0] == 'ok':
        try:
            n = int(t[1])
            xs = [hex2f(x) for x in t[2:2 + n]]
            if len(xs) != n or len(t) != 2 + n:
                return 'other', s
            return 'ok', xs
        except Exception:
            return 'other', s
    if t[0] == 'err' and len(t) == 2:
        return 'err', t[1]
    if t[0] == 'panic':
        return 'panic', None
    return 'other', s


# ----------------------------------------------------------------- generator
def rnd_entry(rng, style):
    if style == 'int':
        return float(rng.randint(-9, 9))
    if style == 'nice':
        return rng.randint(-40, 40) / 8.0
    if style == 'unit':
        return rng.uniform(-1.0, 1.0)
    if style == 'wide':
        return rng.choice([-1, 1]) * 10 ** rng.uniform(-3, 3)
    return rng.gauss(0, 1)


def rnd_matrix(rng, n, style=None):
    style = style or rng.choice(['int', 'nice', 'unit', 'wide', 'gauss'])
    return [[rnd_entry(rng, style) for _ in range(n)] for _ in range(n)], style


def rnd_rhs(rng, n, intlike):
    if intlike and rng.random() < 0.7:
        return [float(rng.randint(-20, 20)) for _ in range(n)]
    return [rng.uniform(-10, 10) for _ in range(n)]


def pick_n(rng):
    return rng.choice([1, 2, 2, 3, 3, 4, 5, 6, 7, 8, 9, 10])


def gen_random(rng, cls):
    n = pick_n(rng)
    tol = rng.choice(TOLS)
    if cls == 'dense':
        A, st = rnd_matrix(rng, n)
        return ge_case(A, rnd_rhs(rng, n, st == 'int'), tol, cls)
    if cls == 'rowscaled':
        A, st = rnd_matrix(rng, n)
        b = rnd_rhs(rng, n, False)
        for i in range(n):
            e = rng.randint(-30, 30)
            A[i] = [math.ldexp(x, e) for x in A[i]]
            b[i] = math.ldexp(b[i], e)
        return ge_case(A, b, tol, cls)
    if cls == 'rankdef':
        n = max(n, 2)
        A, st = rnd_matrix(rng, n, rng.choice(['int', 'nice', 'unit', 'gauss']))
        kind = rng.choice(['reprow', 'zerorow', 'repcol', 'zerocol', 'scaledrow', 'intcomb', 'scaledcol'])
        i, j = rng.sample(range(n), 2)
        if kind == 'reprow':
            A[j] = list(A[i])
        elif kind == 'zerorow':
            A[i] = [0.0] * n
        elif kind == 'repcol':
            for r in A:
                r[j] = r[i]
        elif kind == 'zerocol':
            for r in A:
                r[i] = 0.0
        elif kind == 'scaledrow':
            e = rng.randint(-20, 20)
            A[j] = [math.ldexp(x, e) * rng.choice([1, -1]) for x in A[i]]
        elif kind == 'scaledcol':
            e = rng.randint(-8, 8)
            for r in A:
                r[j] = math.ldexp(r[i], e)
        else:
            A = [[float(rng.randint(-5, 5)) for _ in range(n)] for _ in range(n)]
            others = [r for r in range(n) if r != i]
            cs = {r: rng.randint(-3, 3) for r in others}
            A[i] = [float(sum(cs[r] * A[r][c] for r in others)) for c in range(n)]
            if rng.random() < 0.5:
                A = [list(r) for r in zip(*A)]
        # a solvable or an unsolvable right-hand side, it must not matter
        return ge_case(A, rnd_rhs(rng, n, True), rng.choice([t for t in TOLS if t >= 1e-13] + [1e-15]), cls + ':' + kind)
    if cls == 'zeropivot':
        n = max(n, 2)
        A, st = rnd_matrix(rng, n, rng.choice(['int', 'nice', 'unit']))
        for k in range(rng.randint(1, n - 1)):
            A[k][k] = 0.0
            if rng.random() < 0.5 and k + 2 < n:
                A[k + 1][k] = 0.0       # the first candidate below is zero as well
        A[0][0] = 0.0
        if rng.random() < 0.3:      # anti-diagonal: every pivot needs a swap
            A = [[(float(rng.randint(1, 9)) if j == n - 1 - i else (A[i][j] if j > n - 1 - i else 0.0)) for j in range(n)] for i in range(n)]
        return ge_case(A, rnd_rhs(rng, n, True), tol, cls)
    if cls == 'wellcond':
        # strictly diagonally dominant by rows, then rows permuted and scaled by powers of two
        A = [[rng.uniform(-1, 1) for _ in range(n)] for _ in range(n)]
        for i in range(n):
            A[i][i] = (sum(abs(x) for x in A[i]) + 1.0) * rng.choice([-1, 1])
        rng.shuffle(A)
        b = rnd_rhs(rng, n, False)
        if rng.random() < 0.5:
            for i in range(n):
                e = rng.randint(-30, 30)
                A[i] = [math.ldexp(x, e) for x in A[i]]
                b[i] = math.ldexp(b[i], e)
        return ge_case(A, b, rng.choice([t for t in TOLS if t <= 1e-9]), cls)
    if cls == 'nonfinite':
        A, st = rnd_matrix(rng, n)
        i, j = rng.randrange(n), rng.randrange(n)
        A[i][j] = rng.choice([float('nan'), float('inf'), -float('inf'), 1e308, -0.0, 5e-324])
        return ge_case(A, rnd_rhs(rng, n, False), tol, cls)
    raise ValueError(cls)


def gen_malformed(rng):
    out = []
    tol = 1e-12
    out.append(ge_case([], [], tol, 'empty'))
    out.append(ge_case([], [1.0], tol, 'empty'))
    out.append(ge_case([[], []], [1.0, 2.0], tol, 'nonsquare'))
    out.append(ge_case([[]], [], tol, 'nonsquare'))
    for _ in range(30):
        h, w = rng.randint(1, 6), rng.randint(0, 6)
        if h == w:
            w += 1
        A = [[float(rng.randint(-5, 5)) for _ in range(w)] for _ in range(h)]
        out.append(ge_case(A, rnd_rhs(rng, rng.choice([h, w, 0, h + 1]), True), rng.choice(TOLS), 'nonsquare'))
    for _ in range(30):
        n = rng.randint(1, 6)
        A, st = rnd_matrix(rng, n)
        m = rng.choice([0, n - 1, n + 1, n + 5])
        out.append(ge_case(A, rnd_rhs(rng, m, True), rng.choice(TOLS), 'mismatch'))
    for _ in range(30):
        n = rng.randint(2, 6)
        rows = [[float(rng.randint(-5, 5)) for _ in range(n)] for _ in range(n)]
        i = rng.randrange(n)
        rows[i] = rows[i][:rng.choice([0, n - 1])] if rng.random() < 0.6 else rows[i] + [1.0]
        out.append(ragged_case(rows, rnd_rhs(rng, n, True), rng.choice(TOLS), 'ragged'))
    return out


def gen_subst(rng, count):
    out = []
    out.append(Case('fs 0 0 0', 'fs', None))
    out.append(Case('bs 0 0 0', 'bs', None))
    for _ in range(count):
        cmd = rng.choice(['bs', 'fs'])
        n = pick_n(rng)
        st = rng.choice(['int', 'nice', 'unit', 'wide', 'gauss'])
        garbage = rng.random() < 0.25       # the other triangle is ignored by the routine
        T = [[0.0] * n for _ in range(n)]
        for i in range(n):
            for j in range(n):
                used = (j >= i) if cmd == 'bs' else (j <= i)
                if used or garbage:
                    T[i][j] = rnd_entry(rng, st)
            while T[i][i] == 0.0:
                T[i][i] = rnd_entry(rng, st)
            if rng.random() < 0.2:
                e = rng.randint(-30, 30)
                T[i] = [math.ldexp(x, e) for x in T[i]]
        out.append(Case('%s %s %s' % (cmd, mat_line(T), vec_line(rnd_rhs(rng, n, st == 'int'))), cmd, None))
    return out


def gen(rng, tier):
    quick = tier == 'quick'
    # exhaustive 2x2, entries -3..3
    for e in itertools.product(range(-3, 4), repeat=4):
        A = [[float(e[0]), float(e[1])], [float(e[2]), float(e[3])]]
        yield ge_case(A, [float(rng.randint(-5, 5)), float(rng.randint(-5, 5))], rng.choice(TOLS), 'ex2x2')
    # 3x3, entries -2..2
    for _ in range(1500 if quick else 60000):
        A = [[float(rng.randint(-2, 2)) for _ in range(3)] for _ in range(3)]
        yield ge_case(A, [float(rng.randint(-4, 4)) for _ in range(3)], rng.choice(TOLS), 'ex3x3')
    for v in (0.0, -0.0, 1.0, -2.5, 1e-300, 1e300):
        yield ge_case([[v]], [3.0], 1e-12, '1x1')
    classes = ['dense'] * 4 + ['rowscaled'] * 3 + ['rankdef'] * 3 + ['zeropivot'] * 2 + ['wellcond'] * 3 + ['nonfinite']
    for _ in range(1600 if quick else 40000):
        yield gen_random(rng, rng.choice(classes))
    for c in gen_malformed(rng):
        yield c
    for c in gen_subst(rng, 300 if quick else 6000):
        yield c


# ----------------------------------------------------------------- exact linear algebra (oracle)
def to_int_rows(rows):
    """each row scaled by a power of two to integers (rank and singularity are unchanged)"""
    out = []
    for r in rows:
        fr = [Fraction(x) for x in r]
        d = 1
        for f in fr:
            d = max(d, f.denominator)          # denominators are powers of two
        out.append([int(f * d) for f in fr])
    return out


def exact_rank(rows):
    """fraction-free (Bareiss) elimination with row and column search"""
    M = to_int_rows(rows)
    h = len(M)
    w = len(M[0]) if M else 0
    rank = 0
    prev = 1
    r = 0
    for c in range(w):
        p = None
        for i in range(r, h):
            if M[i][c] != 0:
                p = i
                break
        if p is None:
            continue
        M[r], M[p] = M[p], M[r]
        for i in range(r + 1, h):
            for j in range(c + 1, w):
                M[i][j] = (M[i][j] * M[r][c] - M[i][c] * M[r][j]) // prev
            M[i][c] = 0
        prev = M[r][c]
        r += 1
        rank += 1
        if r == h:
            break
    return rank


def exact_inverse(F):
    """Gauss-Jordan over Fractions; F nonsingular square"""
    n = len(F)
    M = [list(F[i]) + [Fraction(int(i == j)) for j in range(n)] for i in range(n)]
    for c in range(n):
        p = next(i for i in range(c, n) if M[i][c] != 0)
        M[c], M[p] = M[p], M[c]
        inv = 1 / M[c][c]
        M[c] = [x * inv for x in M[c]]
        for i in range(n):
            if i != c and M[i][c] != 0:
                f = M[i][c]
                M[i] = [x - f * y for x, y in zip(M[i], M[c])]
    return [r[n:] for r in M]


def equilibrated_cond(rows):
    """inf-norm condition number of S^-1 A, S = diag(max_j |a_ij|): what scaled pivoting sees"""
    F = [[Fraction(x) for x in r] for r in rows]
    B = []
    for r in F:
        s = max(abs(x) for x in r)
        B.append([x / s for x in r])
    Bi = exact_inverse(B)
    nb = max(sum(abs(x) for x in r) for r in B)
    ni = max(sum(abs(x) for x in r) for r in Bi)
    return nb * ni


def finite(v):
    return not (math.isinf(v) or math.isnan(v))


def residual_violation(rows, rhs, xs, what):
    n = len(rows)
    if len(xs) != n:
        return '%s: solution has length %d, system has %d unknowns' % (what, len(xs), n)
    if not all(finite(x) for x in xs):
        return '%s: returned vector contains NaN or infinity' % what
    F = [[Fraction(x) for x in r] for r in rows]
    X = [Fraction(x) for x in xs]
    xmax = max(abs(x) for x in X)
    c = 8 * n * n
    for i in range(n):
        ax = sum(F[i][j] * X[j] for j in range(n))
        r = abs(ax - Fraction(rhs[i]))
        absax = sum(abs(F[i][j]) * abs(X[j]) for j in range(n))
        si = max(abs(x) for x in F[i])
        env = c * EPS * (max(absax, si * xmax) + abs(Fraction(rhs[i]))) + Fraction(1, 2 ** 1000)
        if r > env:
            return '%s: row %d of A x - b exceeds the backward-error envelope' % (what, i)
    return None


def judge(case, impl):
    cmd, tol, h, w, rows, rhs = parse(case)
    kind, val = parse_out(impl)
    if impl.startswith('container-mismatch'):
        return 'container types disagree: ' + impl[:160]
    if kind == 'other':
        return 'malformed output ' + impl[:80]
    if cmd in ('bs', 'fs'):
        n = h
        if n == 0:
            return None                     # size 0 is outside the routines' contract (back_substitution indexes size-1)
        if kind != 'ok':
            return 'triangular substitution did not return a vector'
        tri = [[(rows[i][j] if ((j >= i) if cmd == 'bs' else (j <= i)) else 0.0) for j in range(n)] for i in range(n)]
        return residual_violation(tri, rhs, val, 'triangular solve')
    # ---- ge / ragged
    if kind == 'panic':
        return 'panic instead of a result'
    ragged = cmd == 'ragged' and any(len(r) != len(rows[0]) for r in rows)
    width = len(rows[0]) if rows else 0
    if ragged or h != width or h != len(rhs) or h == 0:
        return None if kind == 'err' else 'malformed system (ragged / non-square / mismatched / empty) answered with a vector'
    n = h
    flat = [x for r in rows for x in r] + rhs
    if not all(finite(x) for x in flat) or any(abs(x) > 1e150 for x in flat) or any(0 < abs(x) < 1e-150 for x in flat):
        return None                         # outside the bounded ranges of the property: only "no panic" and correspondence
    rank = exact_rank(rows)
    if kind == 'ok':
        if rank < n and tol >= 1e-13:
            return 'exactly singular matrix (rank %d of %d) answered with a vector at tolerance %g' % (rank, n, tol)
        return residual_violation(rows, rhs, val, 'gaussian_elimination')
    # refused
    if val != 'SingularMatrix':
        return 'square system refused with %s' % val
    if rank < n:
        return None
    if tol <= 1e-9:
        cond = equilibrated_cond(rows)
        if cond <= 10 ** 6:
            return 'well-conditioned system (row-equilibrated condition %.3g, tolerance %g) refused' % (float(cond), tol)
    return None


def compare(case, impl, model):
    ki, vi = parse_out(impl)
    km, vm = parse_out(model)
    if ki != km:
        return False
    if ki == 'ok':
        a, b = impl.split(), model.split()
        return len(a) == len(b) and a[1] == b[1] and all(same_float_tok(x, y) for x, y in zip(a[2:], b[2:]))
    return impl == model


def nontrivial(case, impl):
    cmd, tol, h, w, rows, rhs = parse(case)
    if cmd == 'ragged':
        return False
    return h >= 2 and w == h and len(rhs) == h


def describe(case):
    cmd, tol, h, w, rows, rhs = parse(case)
    return {'op': cmd, 'class': case.cls, 'tolerance': tol, 'rows': rows[:4], 'rhs': rhs[:4], 'shape': [h, w]}


# ---- extraction cross-check: the same cases evaluated inside Coq by vm_compute
from tools import xenc
COQ_IMPORTS = 'Base.XEnc Model.Subst Model.Gauss'


def coq_term(case):
    cmd, tol, h, w, rows, rhs = parse(case)
    if len(rows) > 12:
        return None
    m, b = xenc.cq_fmat(rows), xenc.cq_floats(rhs)
    if cmd in ('ge', 'ragged'):
        return 'enc_res enc_floats (@ge_lists float FNum %s %s %s%%float)' % (m, b, xenc.coq_float(tol))
    if cmd == 'bs':
        return 'enc_res enc_floats (@back_subst_lists float FNum %s %s)' % (m, b)
    if cmd == 'fs':
        return 'enc_res enc_floats (Ok (@forward_subst_lists float FNum %s %s))' % (m, b)
    return None


def encode_result(case, model_line):
    return xenc.enc_line(model_line, xenc.enc_floats_toks)
