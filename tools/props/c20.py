# C20 — the compile-time polynomial macros equal the runtime parsers.
# Compiler in the loop: gen() writes crates under build/c20/, builds them with cargo, runs them, and
# stores what the COMPILER did with every invocation in Case.meta; lib.run_check then runs the runtime
# parser (harness bin c20) and the extracted model on the same text, and judge()/compare() put the
# three together.
#
#   echo crate   echo!(text)                      -> the text a proc-macro sees (assumption R1)
#   crate A      show(parse_..._polynomial!(text)) -> the macro-expanded VALUE, bit patterns of every field
#   crate B      let _ = parse_..._polynomial!(text); one per line group, --message-format=json, never run:
#                every rejected text must carry an error whose primary span is its own invocation,
#                no accepted control invocation may carry one
import json, os, re, shutil, struct, time, unicodedata
from decimal import Decimal
from tools import lib
from tools.lib import Case, cps

ID = 'C20'
_BASE = lib.BUILD if lib.REPO == '/repo' else os.path.dirname(lib.TARGET)     # VERIF_REPO: private directories
WORK = os.path.join(_BASE, 'c20')
TARGET20 = os.path.join(_BASE, 'target_c20')
TEMPL = os.path.join(lib.ROOT, 'tools', 'c20_crates')
PROFILES = {'quick': ['debug'], 'thorough': ['debug']}      # the subject is the compiler run, not the profile

RULE = ('texts of both grammars, built term by term (coefficient forms: small integers, leading zeros, `5.`, `.25`, '
        '17-significant-digit shortest forms of random doubles, 20-40 digit decimals, fractions a/b; exponents: ^k, '
        '^-k, ^1.5, ^1/2, ^-1/2, 17-digit exponents; ASCII and non-ASCII variable letters; repeated variables; leading '
        'signs) to target lengths 5..600 characters (>= 80 makes the token printer break lines), with four spacing '
        'styles (tight, around operators, everywhere, random incl. tab / LF / VT / FF / CRLF / U+0085 / U+2028 / '
        'U+2029 and spaces inside numbers); an ungrammatical stream obtained by mutating such texts (doubled or '
        'dangling operators, foreign punctuation, balanced brackets, malformed numbers / fractions / exponents, a '
        'second variable, `@`, words like inf/NaN, string literals); edge classes: empty text, degree 2000 / 65535, '
        'numbers beyond the range of f64 (>= 300-digit decimals, overflowing sums and quotients: regression cases of the '
        'repaired finding F20a — runtime Err AND compile error at the invocation), U+200E/U+200F, non-NFC identifiers.  MEASURED SAFE SUB-LANGUAGE '
        '(texts that rustc 1.95 tokenizes; everything generated is filtered by an emulation of rustc_lexer and any '
        'lexer error in a generated crate fails the check): ASCII digits; identifiers (XID, ASCII or not, keywords '
        'included); + - ^ . / * ! ? ~ % & | ; : , < > = @ $ _; balanced ( ) [ ] { }; complete string literals '
        'separated from identifiers; whitespace = Rust Pattern_White_Space only (TAB LF VT FF CR SPACE U+0085 '
        'U+200E U+200F U+2028 U+2029; U+00A0, U+2000..U+200A, U+3000 ... are lexer errors); a number token directly '
        'followed by letters is ONE literal with a suffix (`2x`, `1.5x`, `x^2y`, `2if`) — fine — except: a token '
        'starting `0x` `0b` `0o` (`0x`, `1/0x`, `y^0x`: "no valid digits"), and digits directly followed by `e`/`E` '
        'without exponent digits (`2e`, `2ex`, `1.5e`, `x^2e`: "expected at least one digit in exponent"; `2e5`, '
        '`1e-3x`, `1.E`, `3.e`, `2 e` are fine); `1.x` and `3.x^2` are fine (`1` `.` `x`); excluded: # \' " directly '
        'after an identifier (reserved prefix), backslash, backquote, non-XID symbols such as superscript or '
        'Arabic-Indic digits, comment openers // and /* (a comment is not part of the token text).  '
        'distinct = distinct (grammar, text); non-trivial = at least 5 non-blank characters')
TRUSTED = ['cargo 1.95 / rustc 1.95 (the subject of assumption R1/R2 and the producer of the diagnostics)',
           'tools/props/c20.py: crate generation, JSON-diagnostic parsing, line attribution',
           'tools/c20_crates/echo_macro (returns input.to_string() as a string literal)',
           'harness/src/bin/c20.rs (runtime parsers, canonical text) and the printing code of the generated crates',
           'extraction of the float instance and ocaml/c20.ml']
ASSUMPTIONS = ['R1 (measured on every case): TokenStream::to_string of the tokenized text differs from the text only by '
               'Unicode White_Space — FALSE for U+200E/U+200F (finding F20b) and for non-NFC identifiers (finding F20c)',
               'R2 (measured on every float of every accepted case): the `{:?}` text of a finite f64, read as a Rust '
               'literal, has the same bits; reread never changes a value',
               'the text of compile_error! is not modelled beyond the error kind (first word of the message)']

WS = set(list(range(9, 14)) + [32, 133, 160, 5760] + list(range(8192, 8203)) + [8232, 8233, 8239, 8287, 12288])
RUST_WS = set([9, 10, 11, 12, 13, 32, 0x85, 0x200e, 0x200f, 0x2028, 0x2029])
EXOTIC_WS = ['\x0b', '\x0c', '\r\n', '\x85', '\u2028', '\u2029', '\t', '\n', ' ', '\r']


def strip_ws(s):
    return ''.join(c for c in s if ord(c) not in WS)


# ------------------------------------------------------------------ emulation of rustc_lexer (the sub-language)
def is_id_start(c):
    return c == '_' or c.isidentifier()


def is_id_cont(c):
    return ('a' + c).isidentifier()


def _eat_dec(t, j):
    has = False
    while j < len(t) and t[j] in '0123456789_':
        has = has or t[j] != '_'
        j += 1
    return j, has


def _eat_exp(t, j):
    if j < len(t) and t[j] in '+-':
        j += 1
    return _eat_dec(t, j)


def _lex_number(t, i):
    n = len(t)
    j = i + 1
    if t[i] == '0':
        if j < n and t[j] in 'box':
            return None                         # base prefixes: outside the sub-language
        if j < n and t[j] in '0123456789_':
            j, _ = _eat_dec(t, j)
        elif j < n and t[j] in '.eE':
            pass
        else:
            return j
    else:
        j, _ = _eat_dec(t, j)
    if j < n and t[j] == '.' and not (j + 1 < n and (t[j + 1] == '.' or is_id_start(t[j + 1]))):
        j += 1
        if j < n and t[j] in '0123456789':
            j, _ = _eat_dec(t, j)
            if j < n and t[j] in 'eE':
                j, ok = _eat_exp(t, j + 1)
                if not ok:
                    return None
        return j
    if j < n and t[j] in 'eE':
        j, ok = _eat_exp(t, j + 1)
        return j if ok else None
    return j


def lex_ok(t):
    """does rustc tokenize `t` as the body of a macro invocation? (conservative; validated by the builds)"""
    i, n, stack = 0, len(t), []
    while i < n:
        c = t[i]
        if ord(c) in RUST_WS:
            i += 1
        elif c in '0123456789':
            j = _lex_number(t, i)
            if j is None:
                return False
            if j < n and is_id_start(t[j]):
                while j < n and is_id_cont(t[j]):
                    j += 1
            if j < n and t[j] in '#\'"':
                return False
            i = j
        elif is_id_start(c):
            j = i
            while j < n and is_id_cont(t[j]):
                j += 1
            if j < n and t[j] in '#\'"':
                return False                    # reserved prefix
            i = j
        elif c == '"':
            j = t.find('"', i + 1)
            if j < 0 or '\\' in t[i:j]:
                return False
            i = j + 1
            if i < n and (is_id_start(t[i]) or t[i] in '#\'"'):
                pass                            # a literal suffix is allowed on strings as well
        elif c == '/':
            if i + 1 < n and t[i + 1] in '/*':
                return False                    # comment openers
            i += 1
        elif c in '+-^.*!?~%&|;:,<>=@$':
            i += 1
        elif c in '([{':
            stack.append(c)
            i += 1
        elif c in ')]}':
            if not stack or '([{'.index(stack.pop()) != ')]}'.index(c):
                return False
            i += 1
        else:
            return False
    return not stack


# ------------------------------------------------------------------ text generators
ASCII_VARS = 'abcdfghijklmnopqrstuvwxyzABCDFGHIJKLMNOPQRSTUVWXYZ'
UNI_VARS = [chr(c) for c in (170, 181, 186, 223, 233, 241, 252, 960, 964, 981, 937, 945, 1078, 1488, 20013, 12354,
                             8450, 8544, 12295, 197, 214, 248)]
UNI_VARS = [c for c in UNI_VARS if c.isidentifier() and unicodedata.normalize('NFC', c) == c]
LENGTHS = [5, 8, 12, 20, 30, 40, 60, 75, 79, 80, 81, 90, 100, 120, 160, 200, 250, 300, 400, 500, 600]


def plain(x):
    """shortest round-trip decimal of a double, without exponent notation"""
    return format(Decimal(repr(x)), 'f')


def gen_number(rng, allow_long=True):
    k = rng.choice(['int', 'int', 'dec', 'dec', 'f17', 'f17', 'f17', 'long', 'lead0', 'dotend', 'dotstart', 'zero'])
    if k == 'int':
        return str(rng.choice([1, 2, 3, 4, 5, 7, 10, 12, 100, rng.randint(0, 99999)]))
    if k == 'dec':
        return '%d.%d' % (rng.randint(0, 99), rng.randint(0, 999))
    if k == 'f17':
        x = rng.choice([rng.random(), rng.uniform(0, 1e6), 10 ** rng.uniform(-6, 15) * rng.random(), 0.1 + 0.2,
                        rng.uniform(1, 2), 1 / 3, 2 / 3, 1e15 * rng.random()])
        return plain(abs(x))
    if k == 'long' and allow_long:
        a = ''.join(rng.choice('0123456789') for _ in range(rng.randint(18, 40)))
        b = ''.join(rng.choice('0123456789') for _ in range(rng.randint(0, 30)))
        return (a.lstrip('0') or '1') + ('.' + b if b else '')
    if k == 'lead0':
        return rng.choice(['007', '00', '0.50', '000.125', '01.10'])
    if k == 'dotend':
        return '%d.' % rng.randint(0, 50)
    if k == 'dotstart':
        return '.%d' % rng.randint(1, 9999)
    return rng.choice(['0', '0.0', '1'])


class Spacer:
    def __init__(self, rng, style):
        self.rng, self.style = rng, style

    def op(self):           # around + and -
        if self.style == 'tight':
            return ''
        if self.style in ('ops', 'all'):
            return ' '
        return self.any()

    def tok(self):          # any other token boundary
        if self.style in ('tight', 'ops'):
            return ''
        if self.style == 'all':
            return ' '
        return self.any()

    def any(self):
        r = self.rng.random()
        if r < 0.45:
            return ''
        if r < 0.75:
            return ' '
        if self.style == 'exotic':
            return self.rng.choice(EXOTIC_WS)
        return self.rng.choice([' ', '  ', '\t', '\n', ' \n '])

    def number(self, s):    # occasionally whitespace INSIDE a number (tokens `1` `2` -> "12" after stripping)
        if self.style == 'exotic' and len(s) > 1 and self.rng.random() < 0.15:
            k = self.rng.randint(1, len(s) - 1)
            return s[:k] + ' ' + s[k:]
        return s


def join_simple(rng, terms, var, sp, lead):
    out = []
    for i, (sign, coef, power) in enumerate(terms):
        if i == 0:
            s = lead if sign == '+' else '-'
            out.append(s + (sp.tok() if s else ''))
        else:
            out.append(sp.op() + sign + sp.op())
        c = sp.number(coef)
        if power is None:
            out.append(c)
        else:
            sep = sp.tok()
            if c and not sep and not lex_ok(c + var):
                sep = ' '
            out.append(c + (sep if c else '') + var)
            if power != '':
                out.append(sp.tok() + '^' + sp.tok() + power)
    return ''.join(out)


def gen_simple_text(rng, target, style):
    var = rng.choice(UNI_VARS) if rng.random() < 0.2 else rng.choice(ASCII_VARS + ('eE' if rng.random() < 0.3 else ''))
    sp = Spacer(rng, style)
    terms = []
    text = ''
    for _ in range(400):
        sign = rng.choice('+-')
        r = rng.random()
        if r < 0.15:
            coef, power = gen_number(rng), None                       # constant
        else:
            coef = '' if rng.random() < 0.2 else gen_number(rng)
            power = rng.choice(['', '', str(rng.randint(0, 12)), str(rng.randint(2, 9)),
                                rng.choice(['007', '00', '40', '100', '300'])])
        terms.append((sign, coef, power))
        text = join_simple(rng, terms, var, sp, rng.choice(['', '', '+']))
        if len(text) >= target:
            break
    return text


def gen_inter_term(rng):
    """pieces of one term: list of (kind, text)"""
    pcs = []
    r = rng.random()
    if r < 0.25:
        pcs.append(('num', gen_number(rng) + '/' + (gen_number(rng, False).strip('0.') or '3') if rng.random() < 0.5
                    else '%d/%d' % (rng.randint(0, 20), rng.randint(1, 20))))
    elif r < 0.8:
        pcs.append(('num', gen_number(rng)))
    nv = rng.choice([0, 1, 1, 1, 2, 2, 3, 4]) if pcs else rng.choice([1, 1, 2, 3])
    letters = rng.choice([ASCII_VARS, 'xyz', 'xy', 'abc', 'xyzt', 'eExy'])
    for _ in range(nv):
        v = rng.choice(letters)
        r = rng.random()
        if r < 0.35:
            e = None
        elif r < 0.55:
            e = str(rng.randint(0, 9))
        elif r < 0.7:
            e = '-' + str(rng.randint(1, 9))
        elif r < 0.8:
            e = rng.choice(['1.5', '0.5', '2.25', '-0.5', '.5', '3.'])
        elif r < 0.92:
            e = rng.choice(['', '-']) + '%d/%d' % (rng.randint(1, 9), rng.randint(1, 9))
        else:
            e = rng.choice(['', '-']) + gen_number(rng)
        pcs.append(('var', v))
        if e is not None:
            pcs.append(('pow', e))
    return pcs


def join_inter(rng, terms, sp, lead):
    out = ''
    for i, (sign, pcs) in enumerate(terms):
        if i == 0:
            s = lead if sign == '+' else '-'
            out += s + (sp.tok() if s else '')
        else:
            out += sp.op() + sign + sp.op()
        for kind, txt in pcs:
            if kind == 'pow':
                piece = '^' + sp.tok() + txt
            else:
                piece = txt
            sep = sp.tok()
            # keep the text inside the tokenizable sub-language: `2e`, `0x`, `y^0b` ... get a blank
            tail = re.split(r'[\s+\-]', out)[-1] if out else ''
            if not sep and tail and not lex_ok(tail + piece):
                sep = ' '
            out += sep + piece
    return out


def gen_inter_text(rng, target, style):
    sp = Spacer(rng, style)
    terms = []
    text = ''
    for _ in range(400):
        terms.append((rng.choice('+-'), gen_inter_term(rng)))
        text = join_inter(rng, terms, sp, rng.choice(['', '', '+']))
        if len(text) >= target:
            break
    return text


BAD_PUNCT = list('*!?~%&|;:,<>=@$_')


def mutate(rng, grammar, t):
    """one ungrammatical (or at least suspicious) variation of a text"""
    k = rng.choice(['dup', 'dup', 'dangle', 'punct', 'punct', 'paren', 'num', 'num', 'pow', 'pow', 'var2', 'word',
                    'at', 'quoted', 'uni'])
    pos = rng.randint(0, len(t))
    ops = [i for i, c in enumerate(t) if c in '+-']
    if k == 'dup' and ops:
        i = rng.choice(ops)
        return t[:i] + rng.choice(['++', '--', '+-+', '-+', '+ +', '- -']) + t[i + 1:]
    if k == 'dangle':
        return t + rng.choice([' +', ' -', '^', ' + ^2', '-', '+', ' * 2', '.'])
    if k == 'punct':
        return t[:pos] + rng.choice(BAD_PUNCT) + t[pos:]
    if k == 'paren':
        a, b = sorted([rng.randint(0, len(t)), rng.randint(0, len(t))])
        o, c = rng.choice(['()', '[]', '{}'])
        return t[:a] + o + t[a:b] + c + t[b:]
    if k == 'num':
        return t[:pos] + rng.choice([' 1.2.3 ', ' 1..2 ', ' 1/2/3 ', ' 1/0 ', ' 1e5 ', ' 2E3x ', ' 1_000 ', ' 1/ ', ' /2 ',
                                     ' 1e-3 ', ' 5/0.0 ']) + t[pos:]
    if k == 'pow':
        return t + rng.choice([' + x^^2', ' + x^2^3', ' - x^-1', ' + x^1.5', ' + x^65536', ' + x^1/0', ' + x^1/2/3',
                               ' + x^-', ' + x^.', ' + x^1.2.3', ' + x^', ' + x^+2', ' + x^2 3', ' + 2x3', ' + x2'])
    if k == 'var2':
        return t + rng.choice([' + y', ' + xy', ' + q^2', ' - 3w', ' + x y'])
    if k == 'word':
        return t + rng.choice([' + inf', ' + NaN', ' - nan', ' + infinity', ' + 1e400', ' + if', ' - 2fn^2'])
    if k == 'at':
        return t[:pos] + '@' + t[pos:]
    if k == 'quoted':
        return t + rng.choice([' + "abc"', ' + "a b"', ' - ""', ' + "x"'])
    return t[:pos] + rng.choice(['é', 'π', ' ж ', 'ß', '中']) + t[pos:]


SPECIAL = [
    # (grammar, class, text)
    ('simple', 'empty', ''), ('inter', 'empty', ''), ('simple', 'empty', ' '), ('inter', 'empty', '\n'),
    ('simple', 'nonfinite-regression', '9' * 400 + 'x'),
    ('simple', 'nonfinite-regression', '1' + '0' * 309 + 'x^2 + 3'),
    ('simple', 'nonfinite-regression', '2' + '0' * 308 + 'x - 2' + '0' * 308 + 'x + 1'),
    ('simple', 'nonfinite-regression', '-' + '9' * 310),
    ('inter', 'nonfinite-regression', '9' * 400 + 'x - ' + '9' * 400 + 'x^2'),
    ('inter', 'nonfinite-regression', 'x^' + '9' * 400),
    ('inter', 'nonfinite-regression', '9' * 400 + '/' + '9' * 400 + 'x'),
    ('inter', 'nonfinite-regression', '3x^' + '9' * 320 + 'x^-' + '9' * 320),
    ('simple', 'nonfinite-regression', '1' + '0' * 308 + 'x + 1' + '0' * 308 + 'x'),          # finite terms, infinite sum
    ('inter', 'nonfinite-regression', 'x^1' + '0' * 308 + 'x^1' + '0' * 308),                 # merged exponents overflow
    ('inter', 'nonfinite-regression', '1' + '0' * 308 + '/0.' + '0' * 20 + '1y'),             # quotient overflows
    ('inter', 'tiny-denominator', '1/0.' + '0' * 330 + '1x'),
    ('simple', 'huge-finite', '1' + '0' * 308 + 'x'),
    ('simple', 'huge-finite', '0.' + '0' * 330 + '1x + 0.' + '0' * 322 + '49'),
    ('simple', 'rust-only-ws', '2x\u200e+1'), ('simple', 'rust-only-ws', '\u200f3y^2 - 1'),
    ('inter', 'rust-only-ws', 'x\u200ey'), ('inter', 'rust-only-ws', '2x ++\u200e 1'),
    ('simple', 'non-nfc', 'A\u030a+1'), ('simple', 'non-nfc', '2 e\u0301^2 - 1'), ('inter', 'non-nfc', '2A\u030a'),
    ('simple', 'keywords', 'if'), ('inter', 'keywords', '2if^2 - fn + 3as^-1'), ('inter', 'keywords', 'r + b - br^2 + c'),
    ('simple', 'number-shapes', '1.x + 3.'), ('simple', 'number-shapes', '3.x^2-.5x+1.'),
    ('inter', 'number-shapes', '1.x^.5y - 3.e^2 + 2 e'), ('simple', 'number-shapes', '2 e^2 - 1.E'),
    ('inter', 'number-shapes', '1 2 3x^1 0'), ('simple', 'number-shapes', '1 . 5 x ^ 0 2'),
    ('simple', 'number-shapes', '-0y^0 - 0'), ('inter', 'number-shapes', '-0 x - 0y^-0'), ('inter', 'number-shapes', '-0/5x^-0/3'),
    ('simple', 'number-shapes', '2e5'), ('simple', 'number-shapes', '1e-3x'), ('inter', 'number-shapes', '1E3x'),
    ('inter', 'quoted', '"a"x'), ('simple', 'quoted', '"a"x'),
]


def texts(rng, tier):
    """[(grammar, class, text)] — every text passes lex_ok"""
    mult = 2 if tier == 'quick' else 10
    out = list(SPECIAL)
    out.append(('simple', 'huge-degree', '3x^2000 - 1' if tier == 'quick' else '3x^65535 - 1'))
    out.append(('simple', 'huge-degree', 'x^65535' if tier != 'quick' else 'x^1000'))
    valid = []
    for g, genf in (('simple', gen_simple_text), ('inter', gen_inter_text)):
        for rep in range(mult):
            for target in LENGTHS:
                for style in ('tight', 'ops', 'all', 'random', 'exotic'):
                    if tier == 'quick' and rng.random() < 0.15:
                        continue
                    for _ in range(20):
                        t = genf(rng, target, style)
                        if lex_ok(t):
                            break
                    else:
                        continue
                    lb = 'short' if len(t) < 80 else ('long' if len(t) < 250 else 'very-long')
                    valid.append((g, 'valid-%s-%s' % (lb, style), t))
    out += valid
    n_bad = 70 * mult
    for _ in range(n_bad):
        g, _, t = rng.choice(valid)
        if len(t) > 200 and rng.random() < 0.7:
            continue
        for _ in range(20):
            m = mutate(rng, g, t)
            if lex_ok(m) and m != t:
                out.append((g, 'mutated', m))
                break
    seen, res = set(), []
    for g, c, t in out:
        if (g, t) in seen:
            continue
        seen.add((g, t))
        assert lex_ok(t), (g, c, t)
        res.append((g, c, t))
    return res


# ------------------------------------------------------------------ crates
ENV20 = None
STATS = {}


def _env():
    global ENV20
    if ENV20 is None:
        tmp = os.path.join(WORK, 'tmp')
        os.makedirs(tmp, exist_ok=True)
        ENV20 = dict(os.environ, CARGO_NET_OFFLINE='true', CARGO_TARGET_DIR=TARGET20, RUSTFLAGS='-Awarnings', TMPDIR=tmp)
    return ENV20


MACRO = {'simple': 'parse_simple_polynomial', 'inter': 'parse_intermediate_polynomial'}


def write_crate(name, template, items):
    """items: [(key, rust statement prefix, text, rust statement suffix)], one invocation each.
    returns {key: (first_line, last_line)} (1-based lines of src/main.rs)"""
    d = os.path.join(WORK, name)
    os.makedirs(os.path.join(d, 'src'), exist_ok=True)
    man = open(os.path.join(TEMPL, 'Cargo.toml.in')).read()
    open(os.path.join(d, 'Cargo.toml'), 'w').write(
        man.replace('@NAME@', name).replace('@ECHO@', os.path.join(WORK, 'echo_macro')).replace('@REPO@', lib.REPO.rstrip('/')))
    shutil.copy(os.path.join(lib.REPO, 'Cargo.lock'), os.path.join(d, 'Cargo.lock'))
    src = open(os.path.join(TEMPL, template)).read()
    head, tail = src.split('@BODY@')
    line = head.count('\n') + 1
    body, where = [], {}
    for key, pre, text, post in items:
        stmt = '    ' + pre + text + post
        nl = stmt.count('\n')
        where[key] = (line, line + nl)
        body.append(stmt)
        line += nl + 1
    open(os.path.join(d, 'src', 'main.rs'), 'w', encoding='utf-8', newline='').write(head + '\n'.join(body) + tail)
    return where


def cargo_build(name):
    """returns (success, [(level, code, message, line_start, line_end)] for primary spans in src/main.rs, others, seconds)"""
    t0 = time.time()
    d = os.path.join(WORK, name)
    rc, out = lib.sh('timeout 1500 cargo build --offline --message-format=json', cwd=d, timeout=1530, env=_env())
    diags, others, success = [], [], False
    for l in out.split('\n'):
        if not l.startswith('{'):
            continue
        try:
            j = json.loads(l)
        except Exception:
            continue
        if j.get('reason') == 'build-finished':
            success = bool(j.get('success'))
        if j.get('reason') != 'compiler-message':
            continue
        m = j['message']
        if m.get('level') not in ('error', 'error: internal compiler error'):
            continue
        prim = [s for s in m.get('spans', []) if s.get('is_primary')]
        if not prim:
            if not m['message'].startswith('aborting due to'):
                others.append(m['message'][:200])
            continue
        for s in prim:
            if s['file_name'].replace('\\', '/').endswith('src/main.rs'):
                diags.append((m['level'], (m.get('code') or {}).get('code'), m['message'], s['line_start'], s['line_end']))
            else:
                others.append('%s:%d %s' % (s['file_name'], s['line_start'], m['message'][:200]))
    if not success and not diags and not others:
        others.append('build failed: ' + out[-600:])
    dt = time.time() - t0
    STATS.setdefault('cargo_builds', []).append({'crate': name, 'seconds': round(dt, 1), 'success': success,
                                                 'errors': len(diags)})
    return success, diags, others, dt


def attribute(where, diags):
    """{key: [(code, message)]}, [unattributed]"""
    by, stray = {}, []
    for level, code, msg, a, b in diags:
        ks = [k for k, (lo, hi) in where.items() if lo <= a <= hi]
        if len(ks) == 1:
            by.setdefault(ks[0], []).append((code, msg))
        else:
            stray.append('line %d: %s' % (a, msg[:160]))
    return by, stray


def status_of(errs):
    """the macro's observable outcome for an invocation that carries errors"""
    for code, msg in errs:
        if code is None and re.match(r'[A-Z][A-Za-z]+\b', msg) and not msg.startswith('proc macro'):
            return 'err ' + re.match(r'[A-Za-z]+', msg).group(0)
    for code, msg in errs:
        if code == 'E0425' and re.search(r'cannot find value `(inf|NaN)`', msg):
            return 'unresolved'
    return 'error ' + (errs[0][0] or '-') + ' ' + errs[0][1][:120]


def run_bin(name, timeout=600):
    rc, out = lib.sh([os.path.join(TARGET20, 'debug', name)], timeout=timeout, env=_env())
    return rc, out


def parse_cps(tokens):
    n = int(tokens[0])
    return ''.join(chr(int(x)) for x in tokens[1:1 + n])


def bits_of_text(s):
    return '%016x' % struct.unpack('<Q', struct.pack('<d', float(s)))[0]


def floats_of_show(grammar, show):
    """the float tokens of a canonical `ok ...` line, in the order of the `{:?}` list of the harness"""
    t = show.split()
    if grammar == 'simple':
        return t[3:]
    out, i = [], 2
    for _ in range(int(t[1])):
        out.append(t[i])
        nv = int(t[i + 1])
        i += 2
        for _ in range(nv):
            ln = int(t[i])
            out.append(t[i + 1 + ln])
            i += 2 + ln
    return out


def chunks(l, n):
    return [l[i:i + n] for i in range(0, len(l), n)] or [[]]


def measure(items, tier):
    """items: [(grammar, class, text)] -> [meta dict] in the same order (what the COMPILER does with each text)"""
    if os.path.isdir(WORK):
        shutil.rmtree(WORK)                                  # old generated crates (and the TMPDIR) go first
    os.makedirs(WORK)
    global ENV20
    ENV20 = None
    shutil.copytree(os.path.join(TEMPL, 'echo_macro'), os.path.join(WORK, 'echo_macro'))
    metas = [{'grammar': g, 'class': c, 'text': t, 'echo': None, 'macro': None, 'rt_echo': None, 'r1': None,
              'r2_bad': None, 'control_error': None, 'lexerror': None, 'where': None} for g, c, t in items]
    size = 100000 if tier == 'quick' else 1000
    # ---- step 1: what does a proc-macro see?  (assumption R1)
    for ci, idxs in enumerate(chunks(list(range(len(items))), size)):
        name = 'c20_echo_%d' % ci
        todo = list(idxs)
        for attempt in range(3):
            where = write_crate(name, 'main_echo.rs.in',
                                [(i, 'let v = echo!(', items[i][2], '); println!("E %d {}", cps(v));' % i) for i in todo])
            ok, diags, others, _ = cargo_build(name)
            if ok:
                break
            by, stray = attribute(where, diags)
            for i, errs in by.items():
                metas[i]['lexerror'] = errs[0][1][:200]
            if stray or others or not by:
                for i in todo:
                    metas[i]['lexerror'] = metas[i]['lexerror'] or ('echo crate did not build: ' + '; '.join((stray + others)[:2]))
                todo = []
                break
            todo = [i for i in todo if i not in by]
        if todo:
            rc, out = run_bin(name)
            for l in out.split('\n'):
                t = l.split()
                if t and t[0] == 'E':
                    metas[int(t[1])]['echo'] = parse_cps(t[2:])
    for m in metas:
        if m['echo'] is None:
            m['lexerror'] = m['lexerror'] or 'no echo produced'
            m['echo'] = m['text']
        m['r1'] = strip_ws(m['echo']) == strip_ws(m['text'])
    # ---- step 2: the runtime parser on the echoed text decides which crate an invocation goes to;
    #      its `{:?}` texts are what the macro writes into the expansion (assumption R2, first half)
    live = [i for i, m in enumerate(metas) if not m['lexerror']]
    pre = lib.run_lines(lib.spx_path(ID, 'debug'), ['d%s %s' % (metas[i]['grammar'], cps(metas[i]['echo'])) for i in live])
    n_floats = 0
    for i, r in zip(live, pre):
        m = metas[i]
        show, _, dbg = r.partition(' ## ')
        m['rt_echo'] = show.strip()
        bad = None
        if show.startswith('ok'):
            fl = floats_of_show(m['grammar'], m['rt_echo'])
            ds = dbg.split()
            if len(fl) != len(ds):
                bad = 'float count %d vs %d' % (len(fl), len(ds))
            for h, d in zip(fl, ds):
                n_floats += 1
                if d in ('inf', '-inf', 'NaN'):
                    continue
                if not re.fullmatch(r'-?[0-9]+(\.[0-9]+)?(e-?[0-9]+)?', d) or bits_of_text(d) != h:
                    bad = '%s printed as %s' % (h, d)
        m['r2_bad'] = bad
        m['finite'] = show.startswith('ok') and not re.search(r'\b[7f]ff[0-9a-f]{13}\b|\bnan\b', show)
    STATS['r2_floats_read_back'] = n_floats
    # ---- step 3: crate A — accepted invocations, expanded and printed
    good = [i for i in live if metas[i]['rt_echo'].startswith('ok') and metas[i]['finite']]
    fn = {'simple': 'show_simple', 'inter': 'show_inter'}
    for ci, idxs in enumerate(chunks(good, 100000 if tier == 'quick' else 300)):
        name = 'c20_val_%d' % ci
        todo = list(idxs)
        for attempt in range(4):
            if not todo:
                break
            where = write_crate(name, 'main_value.rs.in',
                                [(i, 'let v = %s!(' % MACRO[metas[i]['grammar']], metas[i]['text'],
                                  '); println!("V %d {}", %s(&v));' % (i, fn[metas[i]['grammar']])) for i in todo])
            ok, diags, others, _ = cargo_build(name)
            if ok:
                rc, out = run_bin(name)
                for l in out.split('\n'):
                    t = l.split(' ', 2)
                    if len(t) == 3 and t[0] == 'V':
                        metas[int(t[1])]['macro'] = t[2].strip()
                        metas[int(t[1])]['where'] = '%s/src/main.rs:%d' % (name, where[int(t[1])][0])
                break
            by, stray = attribute(where, diags)
            for i, errs in by.items():
                metas[i]['macro'] = status_of(errs)
                metas[i]['where'] = '%s/src/main.rs:%d' % (name, where[i][0])
            if stray or others or not by:
                for i in todo:
                    if metas[i]['macro'] is None:
                        metas[i]['macro'] = 'error crate A did not build: ' + '; '.join((stray + others)[:2])[:200]
                break
            todo = [i for i in todo if i not in by]
    # ---- step 4: crate B — rejected (or non-finite) invocations, interleaved with accepted controls
    bad = [i for i in live if i not in set(good)]
    controls = [i for i in good if len(metas[i]['text']) < 300 and not metas[i]['class'].startswith('huge')]
    for ci, idxs in enumerate(chunks(bad, 100000 if tier == 'quick' else 200)):
        name = 'c20_err_%d' % ci
        its = []
        for k, i in enumerate(idxs):
            its.append((('bad', i), 'let _ = %s!(' % MACRO[metas[i]['grammar']], metas[i]['text'], ');'))
            if controls and k % 4 == 0:
                j = controls[(ci * 7919 + k) % len(controls)]
                its.append((('ctl', j, k), 'let _ = %s!(' % MACRO[metas[j]['grammar']], metas[j]['text'], ');'))
        if not its:
            continue
        where = write_crate(name, 'main_error.rs.in', its)
        ok, diags, others, _ = cargo_build(name)
        by, stray = attribute(where, diags)
        STATS['control_invocations'] = STATS.get('control_invocations', 0) + sum(1 for k in where if k[0] == 'ctl')
        for key, (lo, hi) in where.items():
            errs = by.get(key)
            if key[0] == 'bad':
                m = metas[key[1]]
                m['where'] = '%s/src/main.rs:%d' % (name, lo)
                m['macro'] = status_of(errs) if errs else 'compiled'
                if stray or others:
                    m['stray'] = '; '.join((stray + others)[:2])[:300]
            elif errs:
                metas[key[1]]['control_error'] = '%s/src/main.rs:%d %s' % (name, lo, errs[0][1][:160])
    for m in metas:
        if m['macro'] is None:
            m['macro'] = 'unmeasured'
    # ---- statistics of the two assumptions
    STATS['texts'] = len(metas)
    STATS['r1_holds'] = sum(1 for m in metas if m['r1'])
    STATS['r1_echo_differs_from_text'] = sum(1 for m in metas if m['echo'] != m['text'])
    STATS['r1_line_breaks_inserted'] = sum(1 for m in metas if '\n' in m['echo'] and '\n' not in m['text'])
    STATS['r1_falsified_on'] = [m['text'][:40] for m in metas if not m['r1']][:8]
    STATS['r2_falsified_on'] = [m['r2_bad'] for m in metas if m['r2_bad']][:8]
    STATS['macro_outcomes'] = {}
    for m in metas:
        k = m['macro'].split(' ')[0] + (' ' + m['macro'].split(' ')[1] if m['macro'].startswith('err ') else '')
        STATS['macro_outcomes'][k] = STATS['macro_outcomes'].get(k, 0) + 1
    STATS['cargo_seconds'] = round(sum(b['seconds'] for b in STATS.get('cargo_builds', [])), 1)
    shutil.rmtree(os.path.join(WORK, 'tmp'), ignore_errors=True)
    return metas


FRESH = set()


def make_case(m):
    line = '%s 2 %s %s' % (m['grammar'], cps(m['text']), cps(m['echo']))
    FRESH.add(line)
    return Case(line, m['class'], m)


def gen(rng, tier):
    t0 = time.time()
    STATS.clear()
    items = texts(rng, tier)
    metas = measure(items, tier)
    STATS['gen_seconds'] = round(time.time() - t0, 1)
    for m in metas:
        yield make_case(m)


def refresh(case):
    """--replay: the stored meta is what the compiler did THEN; measure again"""
    if case.line in FRESH or not isinstance(case.meta, dict):
        return
    FRESH.add(case.line)
    m = case.meta
    new = measure([(m['grammar'], m['class'], m['text'])], 'quick')[0]
    case.meta = new


# ------------------------------------------------------------------ oracle
ACCEPTS_BUT_ERROR = 'the runtime parser accepts the text but the macro invocation is a compile error'
REJECTS_BUT_COMPILES = 'the runtime parser rejects the text but the macro invocation compiles: a silently different polynomial'
R1_BROKEN = 'assumption R1 falsified: the text a proc-macro sees differs from the invocation text by more than whitespace'
R2_BROKEN = 'assumption R2 falsified: the {:?} text of a float does not read back to the same bits'


def first_diff(a, b):
    x, y = a.split(), b.split()
    for k, (p, q) in enumerate(zip(x, y)):
        if p != q:
            return 'token %d: macro %s, runtime %s' % (k, p, q)
    return 'lengths %d / %d' % (len(x), len(y))


def judge(case, impl):
    refresh(case)
    m = case.meta
    if m.get('lexerror'):
        return 'generator defect: the text does not tokenize (%s)' % m['lexerror']
    rt = impl.split(' ## ')[0].strip()
    macro = m['macro']
    if macro == 'unmeasured' or macro.startswith('error crate A'):
        return 'measurement failed: ' + macro
    if m.get('stray'):
        return 'a diagnostic of the crate of rejected invocations is not attributable to one invocation: ' + m['stray']
    if rt.startswith('ok'):
        if macro.startswith('ok'):
            if macro != rt:
                return 'the macro-expanded value differs from the runtime value (%s)' % first_diff(macro, rt)
        elif macro == 'compiled':
            return 'inconsistent measurement: the invocation compiled in the crate of rejected invocations'
        else:
            return ACCEPTS_BUT_ERROR + ' (' + macro[:80] + ')'
    elif rt.startswith('err') or rt == 'panic':
        if macro.startswith('ok') or macro == 'compiled':
            return REJECTS_BUT_COMPILES
    else:
        return 'malformed harness output ' + rt[:60]
    if m.get('control_error'):
        return 'an accepted control invocation carries a compile error in the crate of rejected invocations: ' + m['control_error']
    if not m['r1']:
        return R1_BROKEN
    if m.get('r2_bad'):
        return R2_BROKEN + ' (' + m['r2_bad'] + ')'
    return None


def known(case, impl, clause):
    t = case.meta['text']
    if ('\u200e' in t or '\u200f' in t) and (clause == REJECTS_BUT_COMPILES or clause == R1_BROKEN):
        return 'F20b'
    if unicodedata.normalize('NFC', t) != t and (clause == REJECTS_BUT_COMPILES or clause == R1_BROKEN):
        return 'F20c'
    return None


def compare(case, impl, model):
    """both lines:  parse(text) ## parse(echo) ## expansion(echo)   (runtime parser + emit rule / extracted model);
    the third component is also compared with what the COMPILER did (meta)"""
    mp = [x.strip() for x in model.split(' ## ')]
    ip = [x.strip() for x in impl.split(' ## ')]
    if len(mp) != 3 or mp != ip:
        return False
    macro = case.meta['macro']
    if macro == 'compiled':
        return mp[2].startswith('ok')
    # 'err <Kind>': the first word of a compile_error! message at the invocation (when the Debug text of the
    # error contains \" the macro's escaping garbles the rest of the message — `"a"x` gives three errors — but
    # the kind survives); 'unresolved': E0425 on `inf`/`NaN`; anything else ('error ...') matches no model output
    if mp[2] == macro:
        return True
    # text containing a double quote: the Debug text of the error contains \" and the macro's escaping (it replaces
    # only the quote) ends the compile_error! string early, so rustc reports lexer/argument errors on the garbled
    # message instead of the error kind.  It is still a compile error at that invocation (judge checks the span),
    # which is all the property asks for when the runtime parser rejects the text.
    return macro.startswith('error') and mp[2].startswith('err') and '"' in case.meta['text']


def nontrivial(case, impl):
    return len(strip_ws(case.meta['text'])) >= 5


def describe(case):
    m = case.meta
    d = {'grammar': m['grammar'], 'class': m['class'], 'text': m['text'] if len(m['text']) <= 700 else m['text'][:700] + '...',
         'macro': m['macro'][:200], 'where': m.get('where')}
    if m['echo'] != m['text']:
        d['text_seen_by_the_macro'] = m['echo'][:700]
    return d


def extra_evidence():
    return {'compiler_in_the_loop': dict(STATS)}


# ---- extraction cross-check: the same cases evaluated inside Coq by vm_compute
from tools import xenc
COQ_IMPORTS = 'Base.XEnc Base.Str Model.Poly Model.Parse Model.Macro'
XCHECK_N = 200


def coq_term(case):
    # crc thinning below XCHECK_N so that every eligible case is taken, whatever its position in the stream
    # (the decimal -> binary64 conversion of the model is exact big-integer arithmetic: ~0.3 s per long text under vm_compute,
    # several seconds for numbers of 150 digits, which are therefore left to the executable alone)
    if not xenc.keep(case, 9):
        return None
    t = xenc.Toks(case.line)
    cmd = t.word()
    if cmd not in ('simple', 'inter'):
        return None
    texts = [t.cpstr() for _ in range(t.int())]
    if not texts or any(xenc.big_exponent(s) for s in texts):
        return None
    if any(re.search(r'[0-9.]{60}', ''.join(chr(c) for c in s)) for s in texts):
        return None
    enc = xenc.CQ_ENC_SPOLY if cmd == 'simple' else xenc.CQ_ENC_IPOLY
    # r1 ## .. ## rk ## x : every ri through enc_res, the expansion x as 0 :: payload | [1; code] | [3] unresolved | [2] panic
    return ('flat_map (fun s => enc_res %s (@parse_%s float FNum uclass_tab s)) [%s] ++ '
            'match @macro_%s float FNum uclass_tab (fun s => s) float_reread %s with '
            '| XValue p => 0 :: %s p | XCompileError e => [1; err_code e] | XUnresolved => [3] | XMacroPanic _ => [2] end'
            % (enc, cmd, '; '.join(xenc.cq_str(s) for s in texts), cmd, xenc.cq_str(texts[-1]), enc))


def encode_result(case, model_line):
    cmd = case.line.split(' ', 1)[0]
    pay = xenc.enc_spoly_toks if cmd == 'simple' else xenc.enc_ipoly_toks
    out = []
    for part in model_line.split(' ## '):
        out += [3] if part.strip() == 'unresolved' else xenc.enc_line(part, pay)
    return out
