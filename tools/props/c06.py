# C06 — bisection: generator, exact-rational oracle, comparison.
from fractions import Fraction
import math
from tools.lib import Case, f2hex, hex2f, same_float_tok, cps

ID = 'C06'
EPS = Fraction(1, 2 ** 52)
GATE = Fraction(1, 10000)
TINY = Fraction(1, 2 ** 1000)
LO_SCALE = Fraction(1, 2 ** 20)
HI_SCALE = Fraction(2 ** 20)
RULE = ('polynomials of degree 0..7 built from chosen dyadic roots (simple, at 0, at either bracket end, double, none) '
        'or random coefficients, as SimplePolynomial (coefficient vector) and IntermediatePolynomial (Terms built directly), '
        'power-of-two rescalings; brackets ordered / reversed / degenerate; init inside, outside, at an end, equal to the first '
        'midpoint (incl. the second midpoint 0 pattern) and within the tolerance of it without being equal (init_near_mid, tight '
        'tolerances 1e-6..1e-10, cap >= 1200, the converse must hold); tolerances 1e-1..1e-12; caps {0,1,5,60,100,1200,3000}; both modes; '
        'a malformed stream (NaN/inf bounds and tolerances, negative tolerance, two-variable and unbound-variable '
        'IntermediatePolynomials). distinct = distinct case line; non-trivial = the loop was entered (init accepted) on a '
        'non-constant target')
TRUSTED = ['extraction of the float instance (ExtrOcamlBasic, ExtrOCamlFloats, ExtrOCamlInt63) and ocaml/c06.ml',
           'Rust harness harness/src/bin/c06.rs', 'exact-rational oracle tools/props/c06.py',
           'IntermediatePolynomial: f64::powf (libm) is modelled by square-and-multiply; the relation goes through a Python copy of the '
           'model that is checked bit for bit against the extracted model (square-and-multiply) and against the crate (libm pow '
           'called through ctypes)']
ASSUMPTIONS = ['theorems are about the R instance (exact arithmetic); float behaviour is measured by the bit-for-bit comparison',
               '"moderately scaled" (converse half) is read as: non-zero coefficients of the target and non-zero bracket ends in '
               '[2^-20, 2^20] and one ulp of the bracket scale moves the target by less than a quarter of the 1e-4 gate',
               '"ample budget" is read as cap >= 1200 and tolerance >= 1e-10 (percent)',
               'an exact zero of the target at a bracket end counts as a sign change only if the float evaluation there is exact '
               '(every term and partial sum representable)']

TOLS = [10.0 ** (-k) for k in range(1, 13)]
CAPS = [0, 1, 5, 60, 100, 1200, 3000]
X = 'x'


# ----------------------------------------------------------------- polynomial helpers (exact)
def pmul(a, b):
    r = [Fraction(0)] * (len(a) + len(b) - 1)
    for i, x in enumerate(a):
        for j, y in enumerate(b):
            r[i + j] += x * y
    return r


def from_roots(roots, lead=Fraction(1), extra=None):
    p = [Fraction(lead)]
    for r in roots:
        p = pmul(p, [-Fraction(r), Fraction(1)])
    if extra:
        p = pmul(p, extra)
    return p


def pderiv(c):
    return [c[i] * i for i in range(1, len(c))]


def peval(c, x):
    r = Fraction(0)
    for k in reversed(c):
        r = r * x + k
    return r


def pabs_eval(c, x):
    ax = abs(x)
    r = Fraction(0)
    for k in reversed(c):
        r = r * ax + abs(k)
    return r


def representable(fr):
    try:
        return Fraction(float(fr)) == fr
    except OverflowError:
        return False


def eval_exact_in_floats(c, x):
    """every term c_k x^k and every prefix sum is a binary64 number (so any reasonable float evaluation is exact)"""
    s = Fraction(0)
    for k, ck in enumerate(c):
        t = ck * x ** k
        if not representable(x ** k) or not representable(t):
            return False
        s += t
        if not representable(s):
            return False
    return True


# ----------------------------------------------------------------- wire format
def enc_spoly(coefs):
    return ('s %d %s' % (len(coefs), ' '.join(f2hex(c) for c in coefs))).strip()


def enc_ipoly(terms, variables):
    out = ['i', str(len(terms))]
    for c, vs in terms:
        out.append(f2hex(c))
        out.append(str(len(vs)))
        for nm, p in vs:
            out.append(cps(nm))
            out.append(f2hex(p))
    out.append(str(len(variables)))
    for v in variables:
        out.append(cps(v))
    return ' '.join(out)


def terms_of_coefs(coefs, rng=None):
    """dense coefficients -> Terms (zero coefficients dropped, constant term without variables)"""
    ts = []
    for k, c in enumerate(coefs):
        if c == 0.0 and not (rng and rng.random() < 0.1):
            continue
        ts.append((c, [] if k == 0 else [(X, float(k))]))
    if rng and len(ts) > 1 and rng.random() < 0.5:
        rng.shuffle(ts)
    return ts


def mk_line(poly, lo, init, hi, tol, cap, mode):
    return 'bis %s %s %s %s %s %d %d' % (poly, f2hex(lo), f2hex(init), f2hex(hi), f2hex(tol), cap, mode)


class Tk:
    def __init__(self, s):
        self.t = s.split()
        self.i = 0

    def w(self):
        self.i += 1
        return self.t[self.i - 1]

    def n(self):
        return int(self.w())

    def f(self):
        return hex2f(self.w())

    def s(self):
        n = self.n()
        return ''.join(chr(self.n()) for _ in range(n))


def parse_poly(t):
    """returns dict(ptype, coefs | terms/vars)"""
    ty = t.w()
    if ty == 's':
        n = t.n()
        return {'ptype': 's', 'coefs': [t.f() for _ in range(n)]}
    nt = t.n()
    terms = []
    for _ in range(nt):
        c = t.f()
        nv = t.n()
        vs = []
        for _ in range(nv):
            nm = t.s()
            p = t.f()
            vs.append((nm, p))
        terms.append((c, vs))
    nvars = t.n()
    return {'ptype': 'i', 'terms': terms, 'vars': [t.s() for _ in range(nvars)]}


def parse(case):
    t = Tk(case.line)
    t.w()
    d = parse_poly(t)
    d['lo'] = t.f(); d['init'] = t.f(); d['hi'] = t.f(); d['tol'] = t.f()
    d['cap'] = t.n(); d['mode'] = t.n()
    return d


def fin(x):
    return x == x and abs(x) != math.inf


def dense_of(d):
    """exact dense coefficients of the polynomial, or a string naming the expected FunctionError, or None (not a
    polynomial the oracle evaluates)"""
    if d['ptype'] == 's':
        if not all(fin(c) for c in d['coefs']):
            return None
        return [Fraction(c) for c in d['coefs']]
    if len(d['vars']) > 1:
        return 'TooManyVariables'
    bound = d['vars'][0] if d['vars'] else None
    deg = 0
    for c, vs in d['terms']:
        if not fin(c):
            return None
        if len(vs) > 1:
            return None
        for nm, p in vs:
            if not fin(p) or p != int(p) or p < 0 or p > 64:
                return None
            deg = max(deg, int(p))
    out = [Fraction(0)] * (deg + 1)
    for c, vs in d['terms']:
        for nm, p in vs:
            if nm != bound:
                return 'VariableNotFound'
        k = int(vs[0][1]) if vs else 0
        out[k] += Fraction(c)
    return out


def target_of(d):
    """the target g (exact dense coefficients), or an expected error name, or None"""
    p = dense_of(d)
    if p is None or isinstance(p, str):
        if isinstance(p, str) and p == 'VariableNotFound' and d['mode'] == 1:
            # the derivative drops the terms that do not contain the bound variable; which error (if any)
            # surfaces depends on the remaining terms: not judged
            return None
        return p
    if d['mode'] == 1:
        return pderiv(p)
    return p


def describe(case):
    d = parse(case)
    out = {'type': 'SimplePolynomial' if d['ptype'] == 's' else 'IntermediatePolynomial',
           'lower': d['lo'], 'init': d['init'], 'upper': d['hi'], 'tol': d['tol'], 'itermax': d['cap'],
           'mode': 'Extrema' if d['mode'] else 'Root'}
    if d['ptype'] == 's':
        out['coefficients_low_to_high'] = d['coefs']
    else:
        out['terms'] = d['terms']
        out['variables'] = d['vars']
    return out


def nontrivial(case, impl):
    d = parse(case)
    g = target_of(d)
    return impl != 'err XInitOutOfBounds' and isinstance(g, list) and len([c for c in g[1:] if c != 0]) > 0


# ----------------------------------------------------------------- oracle
def moderate(g, d):
    lo, hi = Fraction(d['lo']), Fraction(d['hi'])
    for c in g:
        if c != 0 and not (LO_SCALE <= abs(c) <= HI_SCALE):
            return False
    for e in (lo, hi):
        if e != 0 and not (LO_SCALE <= abs(e) <= HI_SCALE):
            return False
    xm = max(abs(lo), abs(hi))
    slope = pabs_eval(pderiv(g), xm)
    # one ulp at the bracket scale must move g by less than a quarter of the gate
    return slope * xm * EPS < GATE / 4


def slope_tolerance(g, d):
    """largest tolerance (percent) for which the step criterion |dx| < tol% |x| forces |g| < 1e-4 at the stop"""
    lo, hi = Fraction(d['lo']), Fraction(d['hi'])
    xm = max(abs(lo), abs(hi))
    slope = pabs_eval(pderiv(g), xm)
    if slope == 0 or xm == 0:
        return None
    return GATE * 100 / (slope * xm)


def converse_applies(g, d):
    lo, init, hi = d['lo'], d['init'], d['hi']
    if not (fin(lo) and fin(init) and fin(hi) and fin(d['tol'])):
        return False
    if not (lo <= init <= hi):
        return False
    if d['cap'] < 1200 or not (1e-10 <= d['tol'] <= 1e-1):
        return False
    if not moderate(g, d):
        return False
    flo, fhi = Fraction(lo), Fraction(hi)
    a, b = peval(g, flo), peval(g, fhi)
    if a * b > 0:
        return False
    # robust signs: a value at an end is either an exact zero that the float evaluation reproduces, or well
    # outside the rounding envelope of the evaluation
    for v, e in ((a, flo), (b, fhi)):
        env = 4 * (len(g) + 3) * EPS * pabs_eval(g, e)
        if v == 0:
            if not eval_exact_in_floats(g, e):
                return False
        elif abs(v) <= env:
            return False
    return True


CONVERSE = 'sign change over the bracket, moderate scale, ample budget: no value returned'


def judge(case, impl):
    d = parse(case)
    if impl == 'panic' or impl.startswith('abort') or impl.startswith('bad'):
        return 'panic / abort instead of a value or an error value'
    lo, init, hi = d['lo'], d['init'], d['hi']
    if init != init and lo == lo and hi == hi:
        # a NaN guess is inside no bracket: it must be rejected up front (repaired by 5439521; before that it
        # passed both `<` tests, and x - 5 on the reversed bracket [5, 1] returned Ok(5))
        return None if impl == 'err XInitOutOfBounds' else 'NaN initial guess is not rejected with XInitOutOfBounds'
    if any(v != v for v in (lo, init, hi)):
        # a NaN is no bracket end: outside the quantifier; only "never a panic" is judged
        # (observed: NaN ends are not rejected; on the zero target Ok(NaN) is returned)
        return None if impl.startswith(('ok ', 'err ')) else 'malformed output ' + impl
    outside = (init < lo) or (init > hi)
    if outside and impl != 'err XInitOutOfBounds':
        return 'initial guess outside the bracket is not rejected with XInitOutOfBounds'
    if not outside and impl == 'err XInitOutOfBounds':
        return 'XInitOutOfBounds although the initial guess is inside the bracket'
    if outside:
        return None
    g = target_of(d)
    if isinstance(g, str):
        return None if impl == 'err FunctionError:' + g else 'expected FunctionError:%s, got %s' % (g, impl)
    if impl.startswith('ok '):
        tok = impl[3:]
        if tok == 'nan':
            return 'Ok(NaN)'
        x = hex2f(tok)
        if not (lo <= x <= hi):
            return 'returned x outside [lower, upper]'
        if g is None:
            return None
        if not fin(x):
            # an infinite bracket end (extended reals): only the zero target has |g| < 1e-4 there
            return None if all(c == 0 for c in g) else 'returned x is infinite and g is not the zero polynomial'
        fx = Fraction(x)
        v = peval(g, fx)
        env = 2 * (len(g) + 3) * EPS * pabs_eval(g, fx) + TINY
        if abs(v) >= GATE * (1 + Fraction(1, 10 ** 9)) + env:
            return 'returned x has |g(x)| >= 1e-4'
        return None
    if not impl.startswith('err '):
        return 'malformed output ' + impl
    if g is None:
        return None
    if impl.startswith('err FunctionError'):
        return 'FunctionError on a univariate polynomial'
    if converse_applies(g, d):
        return CONVERSE
    return None


def known(case, impl, clause):
    """listed in known_findings.d/C06.json; each keyed on an input class computed from the case alone.
    F-C06-LOOSE-TOL: the stopping rule is a relative step test in percent, the acceptance test an absolute residual
    gate; when the tolerance is looser than gate*100/(|g'| |x|) (|g'| and |x| bounded over the bracket) the loop can stop
    while the residual is still above the gate and NoConvergence is returned although the root is bracketed and the
    budget is not exhausted.  For a tolerance at or below that threshold the step test forces |g| < 1e-4, so a
    NoConvergence there is NOT covered by this finding and is reported as a violation."""
    if clause != CONVERSE or impl != 'err NoConvergence':
        return None
    d = parse(case)
    g = target_of(d)
    t0 = slope_tolerance(g, d)
    if t0 is not None and Fraction(d['tol']) > t0:
        return ('F-C06-LOOSE-TOL bisection stops on the relative step test (tolerance in percent) before the residual '
                'can pass the 1e-4 gate and reports NoConvergence with budget left; e.g. x - 3 on [0, 5], tol 0.1')
    return None


# ----------------------------------------------------------------- float bridge for IntermediatePolynomial
# The Coq float instance computes x^p by square-and-multiply (Base/Num.v float_powf); the crate calls libm pow.
# The two differ in the last bit often enough (about one value in four for p = 3) to send a run through a different
# branch now and then.  The bridge is a line-by-line Python copy of the model (Model/Solvers.v + the part of
# Model/Poly.v used here), parametric in the power function.  For an IntermediatePolynomial case the relation is
#     copy[square-and-multiply] == extracted Coq model   (bit for bit: the copy is the model)
# and copy[libm pow]            == implementation        (bit for bit: pow is the only difference).
import ctypes, ctypes.util
_libm = ctypes.CDLL(ctypes.util.find_library('m') or 'libm.so.6')
_libm.pow.restype = ctypes.c_double
_libm.pow.argtypes = [ctypes.c_double, ctypes.c_double]
INF = math.inf
NAN = float('nan')


def pow_libm(x, p):
    return _libm.pow(x, p)


def pow_sqmul(x, p):
    """Base/Num.v float_powf: integral |p| < 2^31 by compiler-rt's powi loop, NaN otherwise"""
    if p != p or abs(p) == INF or p != math.floor(p) or abs(p) >= 2.0 ** 31:
        return NAN
    n = int(abs(p))
    if n == 0:
        return 1.0
    a, r = x, 1.0
    while True:
        if n & 1:
            r = r * a
        n >>= 1
        if n == 0:
            break
        a = a * a
    return r if p > 0 else fdiv(1.0, r)


def fdiv(a, b):
    if b == 0.0:
        if a != a or a == 0.0:
            return NAN
        return math.copysign(INF, a) * math.copysign(1.0, b)
    return a / b


class FunctionError(Exception):
    pass


def sim_eval_inter(terms, env, powfn):
    result = 0.0
    for c, vs in terms:
        tv = c
        for nm, p in vs:
            if nm not in env:
                raise FunctionError('VariableNotFound')
            tv = tv * powfn(env[nm], p)
        result = result + tv
    return result


def sim_i_eval(poly, x, powfn):
    terms, variables = poly
    if len(variables) > 1:
        raise FunctionError('TooManyVariables')
    env = {variables[0]: x} if variables else {}
    return sim_eval_inter(terms, env, powfn)


def sim_i_derivate(poly):
    terms, variables = poly
    if len(variables) > 1:
        raise FunctionError('TooManyVariables')
    v = variables[0] if variables else 'x'
    out = []
    for c, vs in terms:
        for i, (nm, p) in enumerate(vs):
            if nm == v:
                if p == 0.0:
                    break
                np_ = p - 1.0
                nvs = list(vs)
                if np_ == 0.0:
                    del nvs[i]
                else:
                    nvs[i] = (nm, np_)
                out.append((c * p, sorted(nvs, key=lambda e: e[0])))      # sort_poly: stable, by name
                break
    return (out, list(variables))


def sim_show(x):
    return 'ok ' + f2hex(x)


def sim_bisection(poly, lo, init, hi, tol, cap, mode, powfn):
    try:
        if init != init or init < lo or init > hi:
            return 'err XInitOutOfBounds'
        if mode == 1:
            poly = sim_i_derivate(poly)
        it = 0
        err = 100.0
        lower, x, upper = lo, init, hi
        while True:
            old = x
            x = (lower + upper) / 2.0
            if x != 0.0:
                err = fdiv(abs(x - old), x) * 100.0
            else:
                err = INF
            vl = sim_i_eval(poly, lower, powfn)
            test = vl * sim_i_eval(poly, x, powfn)
            exact = False
            if test < 0.0:
                upper = x
            elif test > 0.0:
                lower = x
            else:
                if vl == 0.0:
                    x = lower
                err = 0.0
                exact = True
            if exact or (it > 0 and abs(err) < tol) or it >= cap:
                break
            it += 1
        if it >= cap:
            return 'err MaxIterationsReached'
        v = sim_i_eval(poly, x, powfn)
        return sim_show(x) if abs(v) < 1e-4 else 'err NoConvergence'
    except FunctionError as e:
        return 'err FunctionError:' + e.args[0]


def sim_nrm(poly, x0, cap, tol, mode, powfn):
    try:
        if mode == 1:
            poly = sim_i_derivate(poly)
        dpoly = sim_i_derivate(poly)
        it = 0
        x = x0
        err = 100.0
        while True:
            old = x
            x = old - fdiv(sim_i_eval(poly, x, powfn), sim_i_eval(dpoly, x, powfn))
            it += 1
            if x != 0.0:
                err = fdiv(abs(x - old), x) * 100.0
            else:
                err = INF
            if x == x and abs(x) != INF and sim_i_eval(poly, x, powfn) == 0.0:
                err = 0.0
            if abs(err) < tol or it >= cap:
                break
        if it >= cap:
            return 'err MaxIterationsReached'
        return sim_show(x)
    except FunctionError as e:
        return 'err FunctionError:' + e.args[0]


BRIDGE = {'used': 0, 'texts_differed': 0}


def same_line(a, b):
    if a == b:
        return True
    return a.startswith('ok ') and b.startswith('ok ') and same_float_tok(a[3:], b[3:])


def bridge_compare(run, impl, model):
    """run(powfn) -> result line of the Python copy"""
    BRIDGE['used'] += 1
    if not same_line(impl, model):
        BRIDGE['texts_differed'] += 1
    return same_line(run(pow_sqmul), model) and same_line(run(pow_libm), impl)


def extra_evidence():
    return {'intermediate_bridge_cases': BRIDGE['used'],
            'intermediate_cases_where_libm_pow_changes_the_result': BRIDGE['texts_differed']}



def close(a, b, rel):
    if a == b:
        return True
    return abs(Fraction(a) - Fraction(b)) <= rel * max(abs(Fraction(a)), abs(Fraction(b)))


def compare(case, impl, model):
    d = parse(case)
    if d['ptype'] == 's':
        return same_line(impl, model)
    poly = (d['terms'], d['vars'])
    return bridge_compare(lambda pw: sim_bisection(poly, d['lo'], d['init'], d['hi'], d['tol'], d['cap'], d['mode'], pw),
                          impl, model)


# ----------------------------------------------------------------- generator
def q4(rng, m=16):
    return Fraction(rng.randint(-m, m), 4)


def fl(fr):
    return float(fr)


def pick_init(rng, lo, hi, kind):
    mid = (lo + hi) / 2
    if kind == 'mid':
        return mid
    if kind == 'lo':
        return lo
    if kind == 'hi':
        return hi
    if kind == 'below':
        return lo - abs(lo) * rng.choice([1e-16, 0.5, 3.0]) - rng.choice([0.0, 1e-300, 1.0])
    if kind == 'above':
        return hi + abs(hi) * rng.choice([1e-16, 0.5, 3.0]) + rng.choice([0.0, 1e-300, 1.0])
    return lo + (hi - lo) * rng.random()


def structured(rng):
    """one structured (coefficients exact, bracket, class)"""
    cls = rng.choice(['simple', 'simple', 'simple', 'root0', 'root0', 'rootlo', 'roothi', 'double', 'none',
                      'deg0', 'deg1', 'multi'])
    deg = rng.randint(1, 7)
    m = 16 if deg <= 5 else 8
    lead = Fraction(rng.choice([1, 1, -1, 2, -3, 5]))
    extra = None
    if cls == 'deg0':
        c = Fraction(rng.choice([0, 1, -2, 5])) * Fraction(2) ** rng.randint(-12, 12)
        lo = q4(rng); hi = lo + Fraction(rng.randint(0, 32), 4)
        return [c], lo, hi, cls
    if cls == 'deg1':
        r = q4(rng)
        lo = r - Fraction(rng.randint(0, 20), 4); hi = r + Fraction(rng.randint(0, 20), 4)
        return from_roots([r], lead), lo, hi, cls
    if cls == 'none':
        k = rng.randint(1, 3)
        p = [lead]
        for _ in range(k):
            p = pmul(p, [Fraction(rng.randint(1, 9)), Fraction(rng.randint(-2, 2)) * 0, Fraction(1)])
        lo = q4(rng); hi = lo + Fraction(rng.randint(1, 32), 4)
        return p, lo, hi, cls
    roots = sorted(set(q4(rng, m) for _ in range(deg)))
    if cls == 'root0':
        roots = sorted(set(roots) | {Fraction(0)})
        r = Fraction(0)
    else:
        r = rng.choice(roots)
    # neighbours of r among the roots delimit a bracket holding exactly r
    left = max([x for x in roots if x < r], default=r - 8)
    right = min([x for x in roots if x > r], default=r + 8)
    gl, gr = r - left, right - r
    lo = r - gl * Fraction(rng.randint(1, 7), 8)
    hi = r + gr * Fraction(rng.randint(1, 7), 8)
    if cls == 'root0' and rng.random() < 0.3:
        w = min(gl, gr) / 2
        lo, hi = -w, w                      # symmetric: the first midpoint is the root
    if cls == 'rootlo':
        lo = r
    if cls == 'roothi':
        hi = r
    mult = roots[:]
    if cls == 'double':
        mult = roots + [r]
    if cls == 'multi':
        mult = roots + [r, r]
        if rng.random() < 0.5:               # bracket over several roots
            lo = roots[0] - Fraction(rng.randint(0, 8), 8); hi = roots[-1] + Fraction(rng.randint(0, 8), 8)
    if len(mult) > 7:
        mult = mult[:7]
        if r not in mult:
            mult[0] = r
    if rng.random() < 0.15 and len(mult) <= 5:
        extra = [Fraction(rng.randint(1, 4)), Fraction(0), Fraction(1)]
    return from_roots(mult, lead, extra), lo, hi, cls


def rescale(rng, p, lo, hi):
    """p(x) -> 2^s p(x / 2^t): exact, roots and bracket scale by 2^t"""
    s = rng.choice([0, 0, 0, rng.randint(-12, 12)])
    t = rng.choice([0, 0, 0, rng.randint(-6, 6), rng.randint(-18, 18)])
    q = [c * Fraction(2) ** s / (Fraction(2) ** (t * k)) for k, c in enumerate(p)]
    return q, lo * Fraction(2) ** t, hi * Fraction(2) ** t


def gen(rng, tier):
    n_struct = 1300 if tier == 'quick' else 26000
    n_rand = 250 if tier == 'quick' else 5000
    n_bad = 150 if tier == 'quick' else 2000

    def emit(coefs, lo, init, hi, tol, cap, mode, cls, ptype=None):
        ptype = ptype or rng.choice(['s', 's', 'i'])
        if ptype == 's':
            poly = enc_spoly(coefs)
        else:
            ts = terms_of_coefs(coefs, rng)
            vs = [X] if (any(v for _, v in ts) or rng.random() < 0.5) else []
            poly = enc_ipoly(ts, vs)
        return Case(mk_line(poly, lo, init, hi, tol, cap, mode), cls + '/' + ptype, None)

    # fixed regression cases (the repaired defects e42ded6 and 8dfb6bc [stale error at midpoint 0], the loose tolerance)
    fixed = [
        ([-4.0, 0.0, 1.0], 2.0, 3.0, 5.0, 1e-5, 100, 0, 'fixed'),
        ([-4.0, 0.0, 1.0], 0.0, 1.0, 2.0, 1e-5, 100, 0, 'fixed'),
        ([-4.0, 0.0, 1.0], 0.0, 1.0, 3.0, 1e-5, 100, 0, 'fixed'),
        ([1.0, 4.0, -1.0], 0.0, 2.0, 4.0, 1e-5, 100, 1, 'fixed'),
        ([-0.5, 1.0], -3.0, -1.0, 1.0, 1e-5, 1200, 0, 'stale0'),
        ([-3.0, 1.0], 0.0, 1.0, 5.0, 1e-1, 1200, 0, 'loosetol'),
        ([0.0, 1.0], -1.0, 0.5, 2.0, 1e-5, 3000, 0, 'root0'),
        ([0.0, 1.0], -1.0, 0.5, 2.0, 1e-5, 100, 0, 'root0'),
        ([], 0.0, 1.0, 2.0, 1e-5, 100, 0, 'deg0'),
        ([], 0.0, 1.0, 2.0, 1e-5, 100, 1, 'deg0'),
        ([7.0], 0.0, 1.0, 2.0, 1e-5, 100, 1, 'deg0'),
    ]
    for coefs, lo, init, hi, tol, cap, mode, cls in fixed:
        for ty in ('s', 'i'):
            yield emit(coefs, lo, init, hi, tol, cap, mode, cls, ty)

    for _ in range(n_struct):
        p, lo, hi, cls = structured(rng)
        mode = rng.choice([0, 0, 1])
        if mode == 1:
            # p := 840 * integral of the root polynomial, so that p' = 840 * (root polynomial) exactly
            p = [Fraction(rng.randint(-3, 3))] + [840 * c / (k + 1) for k, c in enumerate(p)]
        p, lo, hi = rescale(rng, p, lo, hi)
        coefs = [fl(c) for c in p]
        lo, hi = fl(lo), fl(hi)
        shape = rng.choice(['ordered'] * 12 + ['reversed', 'degenerate'])
        if shape == 'reversed':
            lo, hi = hi, lo
            if lo == hi:
                lo = hi + 1.0
            cls = 'reversed'
        elif shape == 'degenerate':
            hi = lo
            cls = 'degenerate'
        kind = rng.choice(['in', 'in', 'in', 'mid', 'mid', 'lo', 'hi', 'below', 'above'])
        init = pick_init(rng, lo, hi, kind)
        if kind in ('below', 'above'):
            cls = 'initoutside'
        tol = rng.choice(TOLS)
        cap = rng.choice(CAPS + [1200, 3000, 1200])
        yield emit(coefs, lo, init, hi, tol, cap, mode, cls)
        if rng.random() < 0.08 and shape == 'ordered':
            # stale-error pattern: init = first midpoint and the second midpoint is 0
            w = abs(rng.choice([0.25, 1.0, 3.0, 10.0]))
            for (l2, h2) in ((-3 * w, w), (-w, 3 * w)):
                yield emit(coefs, l2, (l2 + h2) / 2, h2, tol, cap, mode, 'stale0')

    for _ in range(n_rand):
        deg = rng.randint(0, 7)
        style = rng.choice(['int', 'unit', 'wide'])
        if style == 'int':
            coefs = [float(rng.randint(-9, 9)) for _ in range(deg + 1)]
        elif style == 'unit':
            coefs = [rng.uniform(-1, 1) for _ in range(deg + 1)]
        else:
            coefs = [rng.choice([-1, 1]) * 2.0 ** rng.uniform(-20, 20) for _ in range(deg + 1)]
        a = rng.uniform(-10, 10) if style != 'wide' else rng.choice([-1, 1]) * 2.0 ** rng.uniform(-20, 20)
        b = rng.uniform(-10, 10) if style != 'wide' else rng.choice([-1, 1]) * 2.0 ** rng.uniform(-20, 20)
        lo, hi = min(a, b), max(a, b)
        if rng.random() < 0.06:
            lo, hi = hi, lo
        init = pick_init(rng, lo, hi, rng.choice(['in', 'in', 'mid', 'lo', 'hi', 'below', 'above']))
        yield emit(coefs, lo, init, hi, rng.choice(TOLS), rng.choice(CAPS), rng.choice([0, 1]), 'random')

    # NaN initial guess on ordered, degenerate and reversed brackets, with roots at the ends (the exact-hit exit)
    for (c_, lo_, hi_) in [([-5.0, 1.0], 5.0, 1.0), ([-5.0, 1.0], 1.0, 5.0), ([0.0], 2.0, -2.0), ([-1.0, 1.0], 1.0, 1.0),
                           ([6.0, -5.0, 1.0], 3.0, 2.0), ([6.0, -5.0, 1.0], 2.0, 3.0), ([-2.0, 0.0, 1.0], 2.0, 0.0)]:
        for mode_ in (0, 1):
            yield emit(c_, lo_, float('nan'), hi_, 1e-6, 100, mode_, 'nan-guess')
    specials = [float('nan'), float('inf'), float('-inf'), 0.0, -0.0, 5e-324, 1.7976931348623157e308, -1.0, 1.0]
    for _ in range(n_bad):
        kind = rng.choice(['nanbounds', 'badtol', 'twovars', 'unbound', 'hugecoef', 'nanbounds'])
        coefs = [float(rng.randint(-5, 5)) for _ in range(rng.randint(0, 5))]
        lo, hi = sorted([rng.uniform(-5, 5), rng.uniform(-5, 5)])
        init = (lo + hi) / 2
        tol = rng.choice(TOLS)
        cap = rng.choice(CAPS)
        mode = rng.choice([0, 1])
        if kind == 'nanbounds':
            v = [lo, init, hi]
            for _ in range(rng.randint(1, 2)):
                v[rng.randrange(3)] = rng.choice(specials)
            yield emit(coefs, v[0], v[1], v[2], tol, cap, mode, 'malformed-bounds')
        elif kind == 'badtol':
            yield emit(coefs, lo, init, hi, rng.choice(specials + [-1e-3, 1e3]), cap, mode, 'malformed-tol')
        elif kind == 'hugecoef':
            coefs = [rng.choice(specials + [1e300, -1e300, 1e-300]) for _ in range(rng.randint(1, 5))]
            yield emit(coefs, lo, init, hi, tol, cap, mode, 'malformed-coefs')
        elif kind == 'twovars':
            ts = [(float(rng.randint(1, 5)), [(X, float(rng.randint(1, 3)))]),
                  (float(rng.randint(1, 5)), [('y', 1.0)])]
            poly = enc_ipoly(ts, rng.choice([[X, 'y'], ['y', X], [X, X]]))
            yield Case(mk_line(poly, lo, init, hi, tol, cap, mode), 'malformed-twovars/i', None)
        else:
            ts = [(float(rng.randint(1, 5)), [(X, float(rng.randint(1, 3)))]), (2.0, [])]
            poly = enc_ipoly(ts, rng.choice([['y'], [], ['xx']]))
            yield Case(mk_line(poly, lo, init, hi, tol, cap, mode), 'malformed-unbound/i', None)

    # init_near_mid: the first-iteration guard.  init lies within the tolerance of the first midpoint without being
    # equal to it (or is its float neighbour), so the relative change measured at iteration 0 is tiny but non-zero; it
    # must not stop the search before the bracket has been halved.  Tight tolerances far below the F-C06-LOOSE-TOL
    # threshold, cap >= 1200, sign change, moderate scale: the converse clause of the oracle demands Ok.
    n_near = 40 if tier == 'quick' else 800
    made = 0
    guard = 0
    while made < n_near and guard < 100 * n_near:
        guard += 1
        deg = rng.randint(1, 3)
        roots = sorted(set(q4(rng, 12) for _ in range(deg)))
        r = rng.choice(roots)
        left = max([x for x in roots if x < r], default=r - 4)
        right = min([x for x in roots if x > r], default=r + 4)
        lo = r - (r - left) * Fraction(rng.randint(1, 7), 8)
        hi = r + (right - r) * Fraction(rng.randint(1, 7), 8)
        p = from_roots(roots, Fraction(rng.choice([1, -1, 2])))
        mode = rng.choice([0, 0, 1])
        if mode == 1:
            p = [Fraction(rng.randint(-3, 3))] + [840 * c / (k + 1) for k, c in enumerate(p)]
            p = [c / 840 for c in p] if all(representable(c / 840) for c in p) else p
        coefs = [fl(c) for c in p]
        lo, hi = fl(lo), fl(hi)
        mid = (lo + hi) / 2
        tol = 10.0 ** (-rng.randint(6, 10))
        kind = rng.choice(['rel', 'rel', 'next'])
        if kind == 'rel':
            init = mid * (1 + rng.choice([-1, 1]) * 10.0 ** rng.uniform(-15, -7))
        else:
            init = math.nextafter(mid, rng.choice([-math.inf, math.inf]))
        if mid == 0 or init == mid or not (lo <= init <= hi) or not (abs(abs(mid - init) / mid * 100) < tol):
            continue
        cap = rng.choice([1200, 3000])
        ptype = rng.choice(['s', 's', 'i'])
        c = emit(coefs, lo, init, hi, tol, cap, mode, 'init_near_mid', ptype)
        d = parse(c)
        g = target_of(d)
        t0 = slope_tolerance(g, d) if isinstance(g, list) else None
        if not isinstance(g, list) or peval(g, Fraction(mid)) == 0 or not converse_applies(g, d):
            continue
        if t0 is None or Fraction(tol) * 100 > t0:
            continue
        made += 1
        yield c


# ---- extraction cross-check: the same cases evaluated inside Coq by vm_compute
from tools import xenc
COQ_IMPORTS = 'Base.XEnc Model.Poly Model.Solvers'
XCHECK_N = 200


def coq_term(case):
    # crc thinning below XCHECK_N so that every eligible case is taken, whatever its position in the stream
    if not xenc.keep(case, 1 if case.cls.startswith('fixed') else 12):
        return None
    t = xenc.Toks(case.line)
    if t.word() != 'bis':
        return None
    ty = t.word()
    if ty == 's':
        f, p = 's_bisection', xenc.cq_spoly_rec(t)
    elif ty == 'i':
        f, p = 'i_bisection', xenc.cq_ipoly_rec(t)
    else:
        return None
    lo, init, hi, tol = [xenc.coq_float(t.fl()) + '%float' for _ in range(4)]
    cap = t.int()
    mode = t.int() == 1
    if not 0 <= cap <= 5000:
        return None
    return ('%s (@%s float FNum %s {| b_lower := %s; b_init := %s; b_upper := %s |} %s %d%%nat %s)'
            % (xenc.CQ_ENC_SOLVER, f, p, lo, init, hi, tol, cap, xenc.cq_bool(mode)))


def encode_result(case, model_line):
    return xenc.enc_solver_line(model_line)
