# C17 — printed polynomials read back as the same polynomial: generator, exact-rational oracle, comparison.
#
# Commands (both sides print the same text, see harness/src/bin/c17.rs):
#   fp <p> <hex>                 `{:.p}` of one float                         (text correspondence: exact fmt_prec)
#   shortest <n> <hex>*          `{}` of n floats (Rust only)                 (oracle = the assumptions H1/H2 on fmt_short)
#   ps/pi/pt/pm ...              print a SimplePolynomial / IntermediatePolynomial / Term / LinearModel string
#   rs/ri/rt/rm ...              print, then parse the text back with the real parser (oracle = the property)
# Lines that need `{}` carry the table "| k (hex cps)*" of the strings Rust printed for their floats
# (asked from the harness in a first pass); the model's fmt_short is a lookup in that table.
import math, random, re, subprocess
from fractions import Fraction
from tools import lib
from tools.lib import Case, f2hex, hex2f

ID = 'C17'
RULE = ('SimplePolynomial coefficient vectors of length 0..8 x variable {None, ASCII letter, letter of tab_alphabetic}; '
        'IntermediatePolynomial with 0..5 terms of 0..4 sorted distinct ASCII variables; single Terms; LinearModel '
        'coefficient vectors of length 0..8; values by class (0, -0.0, +-1, small/large integers, decimals, magnitudes '
        '1e-300..1e300, <=1e-7, >=1e16, subnormal, values that round up / tie at the precision: 0.95, 9.5, 0.5, 2.5, 0.25...), '
        'exponents integer / negative / fractional / rounding to 0 or 1; every precision None,0..17 (cycled); each printed '
        '(text compared EXACTLY with the model) and round-tripped through the real parser (oracle); fp: `{:.p}` of single '
        'floats incl. exact ties, subnormals, NaN/inf; a malformed stream (NaN/inf, multi-letter / unsorted / non-ASCII '
        'names, digit variable) is print-only; distinct = distinct case line; non-trivial = some non-zero finite number printed')
TRUSTED = ['extraction of the float instance (ExtrOcamlBasic, ExtrOCamlFloats, ExtrOCamlInt63) and ocaml/c17.ml',
           'Rust harness harness/src/bin/c17.rs (builds the structs from their public fields)',
           'exact-rational oracle tools/props/c17.py',
           'Python float() (correctly rounded decimal->binary64) is the reference for H2']
ASSUMPTIONS = ['H1: Rust `{}` of a finite f64 is [-]digits[.digits] (no exponent), "-" exactly for negative values and -0.0 '
               '-- CHECKED (regex + sign bit) on every float printed with `{}` in this run (the `shortest` cases)',
               'H2: that text, read as a correctly rounded decimal, gives back the same f64 -- CHECKED likewise, twice: '
               "against Python's float() and exactly (the decimal lies within half a gap of the value)",
               'the model fmt_short is a table lookup of the strings Rust printed (not a re-implementation of Grisu/Ryu)',
               'theorems are about the R instance: fmt_short abstract under H1/H2 on a set F of representable values closed '
               'under negation; fmt_prec abstract under its rounding contract prec_spec, which the executable '
               'float_fmt_prec (compared text-for-text with Rust on every case) meets: c17_fmt_prec_exact / c17_fmt_prec_sign',
               'with a precision p the property bounds the printed DECIMAL (within 1/2*10^-p of the value: the theorems, exact '
               'arithmetic); the f64 the parser returns is that decimal rounded once more, so the oracle allows 1/2*10^-p + 1/2 ulp',
               'R has no -0.0: a coefficient -0.0 is skipped / printed as "0" and reads back as +0.0 (value-equal); the oracle '
               'compares values (Fractions), the correspondence check compares bit patterns',
               'char::is_alphabetic / is_numeric are exact only on ASCII, Latin-1 and the tables of Base/Str.v (variables are drawn '
               'from there); IntermediatePolynomial / Term variables are single ASCII letters, sorted and distinct (what the parser '
               'can produce); other names (non-ASCII, multi-letter, unsorted) are exercised print-only']

TAB_ALPHA = [170, 181, 186, 223, 233, 241, 252, 960, 964, 981, 937, 945, 1078, 1488, 20013, 12354, 8450, 8544, 12295]
ASCII_LETTERS = [ord(c) for c in 'abcdefghijklmnopqrstuvwxyzABCDEFGHIJKLMNOPQRSTUVWXYZ']
PRECS = [None] + list(range(18))
STATS = {'h_checked': 0, 'h_distinct': set()}


# ------------------------------------------------------------------ values
ROUNDERS = [0.95, 9.5, 0.5, 1.5, 2.5, 3.5, 0.25, 0.35, 0.125, 0.375, 0.45, 0.05, 0.005, 0.96, 0.04, 0.6, 0.4, 0.49, 0.51,
            99.5, 999.5, 9.999999, 0.9999999999, 0.999995, 0.000005, 0.0000049, 1.000004, 1.4, 1.5000001, 0.3, 10.0, 100.0,
            0.30000000000000004, 1e-5, 5e-6, 4.9999e-6, 1.0000000000000002, 0.9999999999999999, 12345.678905]


def value(rng, allow_zero=True):
    k = rng.random()
    if k < 0.10:
        return rng.choice([1.0, -1.0])
    if k < 0.17 and allow_zero:
        return rng.choice([0.0, 0.0, -0.0])
    if k < 0.30:
        return float(rng.randint(-20, 20)) or 2.0
    if k < 0.36:
        return rng.choice([-1, 1]) * float(rng.choice([10 ** 15 + 1, 2 ** 53, 2 ** 53 + 2, 10 ** 16, 10 ** 17 + 16, 123456789012345680, 10 ** 21, 10 ** 22, 10 ** 23]))
    if k < 0.52:
        return rng.choice([-1, 1]) * round(rng.uniform(0, 1000), rng.randint(0, 6))
    if k < 0.66:
        return rng.choice([-1, 1]) * rng.choice(ROUNDERS)
    if k < 0.78:
        return rng.choice([-1, 1]) * 10 ** rng.uniform(-300, 300)
    if k < 0.84:
        return rng.choice([-1, 1]) * 10 ** rng.uniform(-30, -7)
    if k < 0.90:
        return rng.choice([-1, 1]) * 10 ** rng.uniform(16, 40)
    if k < 0.93:
        return rng.choice([-1, 1]) * rng.choice([5e-324, 2.2250738585072014e-308, 1.7976931348623157e308, 1e-323, 2.225073858507201e-308])
    return rng.uniform(-100, 100)


def exponent(rng):
    k = rng.random()
    if k < 0.15:
        return 1.0
    if k < 0.45:
        return float(rng.randint(0, 12))
    if k < 0.60:
        return float(-rng.randint(1, 9))
    if k < 0.80:
        return rng.choice([0.5, 1.5, -0.5, -0.25, 0.6, 0.4, 2.999, 0.3333333333333333, 2.5, 0.96, 1.04, 0.04, -0.04, 0.95, 9.5, 1e-7, 1e16,
                           0.9999999, 1.0000001, -1.0, 0.0, -0.0, 123.456])
    return round(rng.uniform(-6, 6), rng.randint(1, 5))


# ------------------------------------------------------------------ wire helpers
def cpl(cpslist):
    return (str(len(cpslist)) + ' ' + ' '.join(str(c) for c in cpslist)).strip()


def term_tokens(c, vs):
    s = '%s %d' % (f2hex(c), len(vs))
    for name, e in vs:
        s += ' %s %s' % (cpl(name), f2hex(e))
    return s


def prec_tok(p):
    return '-' if p is None else str(p)


def harness_exe():
    return lib.spx_path(ID, 'debug')


def ask_shortest(floats):
    """strings Rust's `{}` prints for these floats (dict hex token -> str), asked from the harness"""
    toks = sorted({f2hex(v) for v in floats})
    lines = []
    for i in range(0, len(toks), 40):
        ch = toks[i:i + 40]
        lines.append('shortest %d %s' % (len(ch), ' '.join(ch)))
    res = {}
    if not lines:
        return res, []
    rc, out = lib.sh([harness_exe()], inp='\n'.join(lines) + '\n', timeout=300)
    outs = out.strip('\n').split('\n')
    if len(outs) != len(lines):
        raise RuntimeError('harness did not answer the shortest queries')
    for l, o in zip(lines, outs):
        hs = l.split()[2:]
        ss = decode_strings(o.split()[1:])
        for h, s in zip(hs, ss):
            res[h] = s
    return res, lines


def decode_strings(toks):
    out, i = [], 0
    while i < len(toks):
        n = int(toks[i])
        out.append(''.join(chr(int(c)) for c in toks[i + 1:i + 1 + n]))
        i += 1 + n
    return out


def table_tokens(floats, short):
    hs = sorted({f2hex(v) for v in floats})
    s = '| %d' % len(hs)
    for h in hs:
        s += ' %s %s' % (h, lib.cps(short[h]))
    return s


# ------------------------------------------------------------------ generator
def gen_specs(rng, tier):
    """list of (cmd-pair, cls, body-without-table, floats-needing-{} , roundtrip-allowed)"""
    big = tier != 'quick'
    specs = []
    n_simple = 700 if not big else 12000
    n_inter = 600 if not big else 10000
    n_term = 300 if not big else 5000
    n_model = 300 if not big else 5000

    # ---- SimplePolynomial
    fixed_simple = [[], [0.0], [-0.0], [0.0, 0.0, 0.0], [1.0], [-1.0], [0.0, 1.0], [0.0, -1.0], [5.0], [-5.0, 0.0, 0.0, -2.5],
                    [1.0, 1.0, 1.0], [-1.0, -1.0, -1.0], [0.0, 0.0, 0.3], [10.0, 0.3, 100.0], [0.5, 0.5, 0.5], [9.5, 0.95, 0.25],
                    [1e300, -1e-300, 1e16, 1e-7], [0.0, 0.0, 0.0, 0.0, 0.0, 0.0, 0.0, 7.0], [1e-320, 0.0, -5e-324]]
    k = 0
    for cs in fixed_simple:
        for p in PRECS:
            specs.append(('s', 'simple-fixed', (p, 120 if k % 3 else None, cs), True))
            k += 1
    for j in range(n_simple):
        n = rng.choice([0, 1, 1, 2, 2, 3, 3, 4, 5, 6, 7, 8, 8])
        cs = [value(rng) for _ in range(n)]
        if rng.random() < 0.15:
            cs = [c if rng.random() < 0.4 else 0.0 for c in cs]
        p = None if j % 4 == 0 else PRECS[1 + j % 18]
        vk = rng.random()
        var = None if vk < 0.2 else (120 if vk < 0.4 else (rng.choice(ASCII_LETTERS) if vk < 0.75 else rng.choice(TAB_ALPHA)))
        specs.append(('s', 'simple-default' if p is None else 'simple-prec', (p, var, cs), True))

    # ---- IntermediatePolynomial / Term
    def well_formed_term(allow_zero=True):
        nv = rng.choice([0, 1, 1, 2, 2, 3, 4])
        names = sorted(rng.sample(ASCII_LETTERS, nv))
        return value(rng, allow_zero), [([nm], exponent(rng)) for nm in names]

    fixed_inter = [[], [(0.0, [])], [(-0.0, [])], [(1.0, [])], [(-1.0, [])], [(1.0, [([120], 1.0)])], [(-1.0, [([120], 1.0)])],
                   [(-1.0, [([120], 2.0)]), (-1.0, [([121], -2.0)]), (1.0, [])],
                   [(2.0, [([120], 0.6)]), (3.0, [([120], 0.4)]), (0.3, [([121], 10.0)]), (10.0, [([122], 0.0)])],
                   [(0.0, [([120], 2.0)]), (-0.0, [([121], 0.5)])],
                   [(0.5, [([97], -0.5), ([98], 1.5), ([99], -0.25), ([100], 9.5)]), (9.5, []), (0.95, [])],
                   [(1e300, [([120], 1e16)]), (-1e-300, [([121], 1e-7)])]]
    k = 0
    for ts in fixed_inter:
        for p in PRECS:
            specs.append(('i', 'inter-fixed', (p, ts), True))
    for j in range(n_inter):
        nt = rng.choice([0, 1, 1, 2, 2, 3, 4, 5])
        ts = [well_formed_term() for _ in range(nt)]
        p = None if j % 4 == 0 else PRECS[1 + j % 18]
        specs.append(('i', 'inter-default' if p is None else 'inter-prec', (p, ts), True))
    for ts in fixed_inter:
        for t in ts:
            specs.append(('t', 'term-fixed', t, True))
    for j in range(n_term):
        specs.append(('t', 'term', well_formed_term(), True))

    # ---- LinearModel::to_polynomial_string
    fixed_model = [[], [0.0], [0.0, 0.0], [1.0], [-1.0], [1.0, 1.0, 1.0], [-1.0, -1.0, -1.0], [0.5, -0.5, 0.5, -0.5],
                   [0.999995, 0.999995, -0.999995], [1e-7, -1e-7, 1e-7], [-1e-7, 4.9999e-6, 5e-6], [1e300, -1e300, 1e22],
                   [0.0, 0.0, 0.0, 0.0, 0.0, 0.0, 0.0, -3.25], [12345.678905, -0.000005, 2.5]]
    for cs in fixed_model:
        specs.append(('m', 'model-fixed', cs, True))
    for j in range(n_model):
        n = rng.choice([0, 1, 2, 2, 3, 3, 4, 5, 6, 7, 8])
        specs.append(('m', 'model', [value(rng) for _ in range(n)], True))

    # ---- malformed / out-of-domain stream: print only (text correspondence)
    specials = [float('nan'), float('inf'), float('-inf')]
    n_mal = 150 if not big else 2000
    for j in range(n_mal):
        kind = rng.choice(['s-nonfinite', 's-oddvar', 'i-nonfinite', 'i-names', 'i-unsorted', 't-nonfinite', 'm-nonfinite'])
        p = rng.choice(PRECS)
        if kind == 's-nonfinite':
            cs = [rng.choice(specials) if rng.random() < 0.4 else value(rng) for _ in range(rng.randint(1, 5))]
            specs.append(('s', 'mal-' + kind, (p, rng.choice([None, 120, 121]), cs), False))
        elif kind == 's-oddvar':
            cs = [value(rng) for _ in range(rng.randint(1, 5))]
            specs.append(('s', 'mal-' + kind, (p, rng.choice([49, 43, 45, 46, 94, 32, 64, 47, 101, 69]), cs), False))
        elif kind == 'i-nonfinite':
            ts = [(rng.choice(specials + [2.0]), [([120], rng.choice(specials + [2.0]))]) for _ in range(rng.randint(1, 3))]
            specs.append(('i', 'mal-' + kind, (p, ts), False))
        elif kind == 'i-names':
            ts = [(value(rng), [(rng.choice([[120, 121], [960], [], [120, 49], [233]]), exponent(rng))]) for _ in range(rng.randint(1, 3))]
            specs.append(('i', 'mal-' + kind, (p, ts), False))
        elif kind == 'i-unsorted':
            ts = [(value(rng), [([rng.choice([120, 121, 122])], exponent(rng)) for _ in range(rng.randint(2, 4))]) for _ in range(rng.randint(1, 3))]
            specs.append(('i', 'mal-' + kind, (p, ts), False))
        elif kind == 't-nonfinite':
            specs.append(('t', 'mal-' + kind, (rng.choice(specials), [([120], rng.choice(specials + [1.0]))]), False))
        else:
            cs = [rng.choice(specials) if rng.random() < 0.4 else value(rng) for _ in range(rng.randint(1, 5))]
            specs.append(('m', 'mal-' + kind, cs, False))
    return specs


def spec_floats(kind, body):
    """the floats this case prints with `{}` (both v and |v|: coefficients are printed by magnitude)"""
    if kind == 's':
        p, var, cs = body
        return [abs(c) for c in cs] if p is None else []
    if kind == 'i':
        p, ts = body
        if p is not None:
            return []
        out = []
        for c, vs in ts:
            out.append(abs(c))
            out += [e for _, e in vs]
        return out
    if kind == 't':
        c, vs = body
        return [c] + [e for _, e in vs]
    return []


def spec_body(kind, body):
    if kind == 's':
        p, var, cs = body
        return ('%s %s %d %s' % (prec_tok(p), '-' if var is None else str(var), len(cs), ' '.join(f2hex(c) for c in cs))).strip()
    if kind == 'i':
        p, ts = body
        return ('%s %d %s' % (prec_tok(p), len(ts), ' '.join(term_tokens(c, vs) for c, vs in ts))).strip()
    if kind == 't':
        return term_tokens(*body)
    return ('%d %s' % (len(body), ' '.join(f2hex(c) for c in body))).strip()


def fp_cases(rng, tier):
    n = 2500 if tier == 'quick' else 40000
    vals = [0.0, -0.0, 0.5, 1.5, 2.5, -0.5, 0.25, 0.75, 0.125, 0.375, 0.625, 0.0625, 0.95, 9.5, 0.35, 0.45, 99.5, 1e22, 1e23, 5e-324,
            2.2250738585072014e-308, 1.7976931348623157e308, float('inf'), float('-inf'), float('nan'), 1e-7, 1e16, 0.1, 0.2, 0.3,
            9.999999999999999e22, 0.999999999999999944488848768742172978818416595458984375, 4.5, 1e15 + 0.5, 2 ** 52 + 0.5 - 0.5]
    out = []
    for v in vals:
        for p in range(18):
            out.append((p, v, 'fp-fixed'))
    for _ in range(n):
        k = rng.random()
        p = rng.randint(0, 17)
        if k < 0.25:
            # exact ties at the precision: odd multiple of 2^-(q) with q-1 <= p ... choose m/2^(p+1) (a tie when m odd and 5^p scaling keeps it: only p=0 exact; others near-ties)
            v = (2 * rng.randint(0, 10 ** 6) + 1) / 2.0 ** (rng.randint(1, 8))
        elif k < 0.45:
            v = (rng.randint(0, 10 ** (p + 2)) + 0.5) / 10.0 ** p          # decimal near-ties
        elif k < 0.75:
            v = 10 ** rng.uniform(-300, 300)
        elif k < 0.85:
            v = hex2f('%016x' % rng.randint(0, 0x7fefffffffffffff))          # any finite bit pattern (incl. subnormals)
        elif k < 0.92:
            v = float(rng.randint(0, 10 ** rng.randint(1, 20)))
        else:
            v = rng.uniform(0, 10)
        if rng.random() < 0.3:
            v = -v
        out.append((p, v, 'fp'))
    return out


def gen(rng, tier):
    specs = gen_specs(rng, tier)
    floats = []
    for kind, cls, body, rt in specs:
        floats += spec_floats(kind, body)
    short, short_lines = ask_shortest(floats)
    for l in short_lines:
        yield Case(l, 'shortest', None)
    for p, v, cls in fp_cases(rng, tier):
        yield Case('fp %d %s' % (p, f2hex(v)), cls, None)
    for kind, cls, body, rt in specs:
        b = spec_body(kind, body)
        fl = spec_floats(kind, body)
        if fl:
            b += ' ' + table_tokens(fl, short)
        yield Case('p%s %s' % (kind, b), cls, None)
        if rt:
            yield Case('r%s %s' % (kind, b), cls, None)


# ------------------------------------------------------------------ parsing of lines
class Tk:
    def __init__(self, s):
        self.t = s.split()
        self.i = 0

    def w(self):
        x = self.t[self.i]
        self.i += 1
        return x

    def more(self):
        return self.i < len(self.t)

    def peek(self):
        return self.t[self.i] if self.more() else None

    def int(self):
        return int(self.w())

    def f(self):
        return hex2f(self.w())

    def fvec(self):
        return [self.f() for _ in range(self.int())]

    def cps(self):
        return [int(self.w()) for _ in range(self.int())]

    def term(self):
        c = self.f()
        return c, [(self.cps(), self.f()) for _ in range(self.int())]


def parse_case(line):
    t = Tk(line)
    cmd = t.w()
    d = {'cmd': cmd}
    if cmd == 'shortest':
        d['hex'] = t.t[2:]
    elif cmd == 'fp':
        d['prec'] = t.int()
        d['x'] = t.f()
    elif cmd in ('ps', 'rs'):
        w = t.w()
        d['prec'] = None if w == '-' else int(w)
        w = t.w()
        d['var'] = None if w == '-' else int(w)
        d['coefs'] = t.fvec()
    elif cmd in ('pi', 'ri'):
        w = t.w()
        d['prec'] = None if w == '-' else int(w)
        d['terms'] = [t.term() for _ in range(t.int())]
    elif cmd in ('pt', 'rt'):
        d['terms'] = [t.term()]
        d['prec'] = None
    elif cmd in ('pm', 'rm'):
        d['coefs'] = t.fvec()
        d['prec'] = 5
    return d


def parse_simple_out(t):
    w = t.w()
    var = None if w == '-' else int(w)
    return var, t.fvec()


def parse_inter_out(t):
    n = t.int()
    terms = [t.term() for _ in range(n)]
    assert t.w() == '|'
    nv = t.int()
    names = [t.cps() for _ in range(nv)]
    return terms, names


def describe(case):
    d = parse_case(case.line)
    if d['cmd'] == 'shortest':
        return {'op': 'shortest', 'n': len(d['hex']), 'first': [hex2f(h) for h in d['hex'][:4]]}

    def tm(t):
        return {'coef': t[0], 'vars': [[''.join(chr(c) for c in n), e] for n, e in t[1]]}
    out = {'op': d['cmd'], 'prec': d.get('prec')}
    if 'x' in d:
        out['x'] = d['x']
    if 'coefs' in d:
        out['coefs'] = d['coefs']
        if 'var' in d:
            out['var'] = None if d['var'] is None else chr(d['var'])
    if 'terms' in d:
        out['terms'] = [tm(t) for t in d['terms']]
    return out


def nontrivial(case, impl):
    d = parse_case(case.line)
    if d['cmd'] == 'shortest':
        return True
    if d['cmd'] == 'fp':
        return d['x'] == d['x'] and d['x'] != 0 and not math.isinf(d['x'])
    vals = list(d.get('coefs', [])) + [c for c, _ in d.get('terms', [])]
    return any(v == v and v != 0 and not math.isinf(v) for v in vals)


# ------------------------------------------------------------------ oracle
H1_RE = re.compile(r'^-?[0-9]+(\.[0-9]+)?$')


def fr(x):
    return Fraction(x)


def half_unit(p):
    return Fraction(1, 2 * 10 ** p)


def tolerance(p, back):
    """precision p: the printed DECIMAL is within 1/2*10^-p of the value (the property); the parser then rounds that
    decimal to the nearest f64, which adds at most half an ulp of the value read back.  Default formatting: identity."""
    if p is None:
        return Fraction(0)
    return half_unit(p) + Fraction(math.ulp(back)) / 2


def check_h(hexes, impl):
    toks = impl.split()
    if not toks or toks[0] != 'ok':
        return 'shortest: malformed answer'
    ss = decode_strings(toks[1:])
    if len(ss) != len(hexes):
        return 'shortest: wrong number of strings'
    for h, s in zip(hexes, ss):
        v = hex2f(h)
        if v != v or math.isinf(v):
            continue
        STATS['h_checked'] += 1
        STATS['h_distinct'].add(h)
        if not H1_RE.match(s):
            return 'ASSUMPTION H1 fails: `{}` of %r printed %r (not [-]digits[.digits])' % (v, s)
        neg = math.copysign(1.0, v) < 0
        if neg != s.startswith('-'):
            return 'ASSUMPTION H1 fails: sign of `{}` of %r is %r' % (v, s)
        # H2 with an exact reference: the decimal must round (half-even) to v.  Python's float() is correctly rounded.
        if f2hex(float(s)) != h:
            return 'ASSUMPTION H2 fails: %r does not read back as %r' % (s, v)
        # ... and exactly: |decimal - v| <= half the gap to the neighbours
        dec = Fraction(s)
        if v != 0:
            lo, hi = math.nextafter(v, -math.inf), math.nextafter(v, math.inf)
            if not (math.isinf(lo) or math.isinf(hi)):
                if not ((fr(lo) + fr(v)) / 2 <= dec <= (fr(v) + fr(hi)) / 2):
                    return 'ASSUMPTION H2 fails: %r is not within half a gap of %r' % (s, v)
        elif dec != 0:
            return 'ASSUMPTION H2 fails: zero printed as %r' % s
    return None


def finite(v):
    return v == v and not math.isinf(v)


def in_domain(d):
    """the property's quantifier: finite numbers; Simple: variable None or a letter; Intermediate/Term: sorted distinct
    single ASCII letters"""
    if 'coefs' in d:
        if not all(finite(c) for c in d['coefs']):
            return False
        v = d.get('var')
        if v is not None and not (v in ASCII_LETTERS or v in TAB_ALPHA or (192 <= v <= 255 and v not in (215, 247))):
            return False
        return True
    for c, vs in d['terms']:
        if not finite(c) or not all(finite(e) for _, e in vs):
            return False
        names = [n for n, _ in vs]
        if any(len(n) != 1 or n[0] not in ASCII_LETTERS for n in names):
            return False
        if names != sorted(names) or len(set(map(tuple, names))) != len(names):
            return False
    return True


def judge(case, impl):
    d = parse_case(case.line)
    cmd = d['cmd']
    if impl == 'panic' or impl.startswith('abort'):
        return 'panic while printing / reading back'
    if cmd == 'shortest':
        return check_h(d['hex'], impl)
    if not impl.startswith('ok '):
        return 'malformed output ' + impl[:60]
    if cmd[0] == 'p' or cmd == 'fp':
        return None                                     # text correspondence only
    if not in_domain(d):
        return None
    head, _, back = impl.partition(' ; ')
    text = ''.join(decode_strings(head.split()[1:]))
    if back.startswith('err') or back == 'panic':
        return 'printed text %r is rejected by the parser (%s)' % (text[:80], back)
    t = Tk(back)
    p = d['prec']
    what = 'identical' if p is None else 'within 1/2*10^-%d + 1/2 ulp' % p
    if cmd in ('rs', 'rm'):
        var, q = parse_simple_out(t)
        cs = d['coefs']
        for k in range(max(len(cs), len(q))):
            a = fr(cs[k]) if k < len(cs) else Fraction(0)
            b = q[k] if k < len(q) else 0.0
            if not finite(b):
                return 'read-back coefficient %d is not finite' % k
            if abs(fr(b) - a) > tolerance(p, b):
                return 'coefficient of degree %d reads back as %r, printed from %r (not %s); text %r' % (
                    k, b, cs[k] if k < len(cs) else 0.0, what, text[:80])
        # the variable is recoverable when a non-constant term was printed
        if any(c != 0 for c in cs[1:]):
            want = 120 if cmd == 'rm' or d['var'] is None else d['var']
            if var != want:
                return 'variable reads back as %r instead of %r' % (var, want)
        return None
    terms, names = parse_inter_out(t)
    orig = d['terms']
    if not orig:
        # the zero polynomial prints "0": value-equal read-back
        if all(fr(c) == 0 for c, _ in terms):
            return None
        return 'zero polynomial reads back with a non-zero term'
    if len(terms) != len(orig):
        return 'number of terms changes from %d to %d; text %r' % (len(orig), len(terms), text[:80])
    for k, ((c, vs), (c2, vs2)) in enumerate(zip(orig, terms)):
        if not finite(c2) or abs(fr(c2) - fr(c)) > tolerance(p, c2):
            return 'coefficient of term %d reads back as %r, printed from %r (not %s); text %r' % (k, c2, c, what, text[:80])
        if [n for n, _ in vs] != [n for n, _ in vs2]:
            return 'variables of term %d change; text %r' % (k, text[:80])
        for (n, e), (_, e2) in zip(vs, vs2):
            if not finite(e2) or abs(fr(e2) - fr(e)) > tolerance(p, e2):
                return 'exponent of %s in term %d reads back as %r, printed from %r (not %s); text %r' % (
                    chr(n[0]), k, e2, e, what, text[:80])
    want_names = sorted({tuple(n) for _, vs in orig for n, _ in vs})
    if [tuple(n) for n in names] != want_names:
        return 'variable list reads back as %r' % (names,)
    return None


def compare(case, impl, model):
    if case.line.startswith('shortest'):
        return True                                     # Rust-only measurement of H1/H2
    return impl == model


def extra_evidence():
    return {'assumption_checks': {'H1_H2_checked_on_floats': STATS['h_checked'], 'distinct_floats': len(STATS['h_distinct'])}}


# ---- extraction cross-check: the same cases evaluated inside Coq by vm_compute
from tools import xenc
COQ_IMPORTS = 'Base.XEnc Base.Str Model.Poly Model.Parse Model.Display'
XCHECK_N = 200


def _x_term(t):
    c = t.fl()
    vs = []
    for _ in range(t.int()):
        nm = t.cpstr()
        vs.append('(%s, %s%%float)' % (xenc.cq_str(nm), xenc.coq_float(t.fl())))
    return '{| t_coef := %s%%float; t_vars := [%s] |}' % (xenc.coq_float(c), '; '.join(vs))


def _x_table(t):
    if t.rest()[:1] != ['|']:
        return '[]'
    t.word()
    ents = []
    for _ in range(t.int()):
        x = t.fl()
        ents.append('(%s%%float, %s)' % (xenc.coq_float(x), xenc.cq_str(t.cpstr())))
    return '[%s]' % '; '.join(ents)


def _x_prec(t):
    w = t.word()
    return 'None' if w == '-' else '(Some %s)' % xenc.cq_nat(int(w))


def coq_term(case):
    t = xenc.Toks(case.line)
    cmd = t.word()
    if cmd not in ('fp', 'ps', 'rs', 'pi', 'ri', 'pt', 'rt', 'pm', 'rm'):
        return None
    # crc thinning below XCHECK_N so that every eligible case is taken, whatever its position in the stream
    if not xenc.keep(case, 110 if cmd == 'fp' else 4 if case.cls.startswith('mal-') else 55):
        return None
    if cmd == 'fp':
        p = t.int()
        return 'enc_str (float_fmt_prec %s %s%%float)' % (xenc.cq_nat(p), xenc.coq_float(t.fl()))
    back = None
    if cmd in ('ps', 'rs'):
        pr = _x_prec(t)
        v = t.word()
        cs = t.fvec()
        tab = _x_table(t)
        text = ('@fmt_simple float FNum float_fmt_prec (float_fmt_short %s) %s {| s_coefs := %s; s_var := %s |}'
                % (tab, pr, xenc.cq_floats(cs), 'None' if v == '-' else 'Some %d%%N' % int(v)))
        back = 's'
    elif cmd in ('pi', 'ri'):
        pr = _x_prec(t)
        ts = [_x_term(t) for _ in range(t.int())]
        tab = _x_table(t)
        text = ('@fmt_inter float FNum float_fmt_prec (float_fmt_short %s) %s {| i_terms := [%s]; i_vars := [] |}'
                % (tab, pr, '; '.join(ts)))
        back = 'i'
    elif cmd in ('pt', 'rt'):
        tm = _x_term(t)
        tab = _x_table(t)
        text = '@fmt_term float FNum float_fmt_prec (float_fmt_short %s) %s' % (tab, tm)
        back = 'i'
    else:
        text = '@to_polynomial_string float FNum float_fmt_prec %s' % xenc.cq_floats(t.fvec())
        back = 's'
    if cmd[0] == 'p':
        return 'enc_str (%s)' % text
    if back == 's':
        return '(let text := %s in enc_str text ++ enc_res %s (@parse_simple float FNum uclass_tab text))' % (text, xenc.CQ_ENC_SPOLY)
    return '(let text := %s in enc_str text ++ enc_res %s (@parse_inter float FNum uclass_tab text))' % (text, xenc.CQ_ENC_IPOLY)


def encode_result(case, model_line):
    t = model_line.split()
    if t[0] != 'ok':
        return [-99]
    n = int(t[1])
    out = [n] + [int(x) for x in t[2:2 + n]]
    rest = t[2 + n:]
    if not rest:
        return out
    assert rest[0] == ';', model_line
    rest = rest[1:]
    if rest[0] == 'err':
        return out + [1, xenc.err_code(rest[1])]
    if rest[0] == 'panic':
        return out + [2]
    cmd = case.line.split(' ', 1)[0]
    return out + [0] + (xenc.enc_spoly_toks(rest) if cmd in ('rs', 'rm') else xenc.enc_ipoly_toks(rest))
