# C09 — LU and PLU factorisation: generator, exact oracle, comparison.
#
# wire:  lu h w e..   plu h w e..   lurag k len v.. len v..   plurag k len v.. ..
# answer: ok n <L> <U> [<P>] | err <Kind> | panic | container-mismatch ..
from fractions import Fraction
import itertools
import math
from tools.lib import Case, f2hex, hex2f

ID = 'C09'
RULE = ('lu and plu on: ALL 2x2 matrices with entries -3..3 (2401), 3x3 with entries -2..2 (quick: random sample, thorough: all 1953125), '
        'random n<=10 by class: dense floats, small integers, zero leading minor (a11=0, integer L*U with a zero pivot, dyadic row multiples '
        'inside a leading block), permutation-heavy (shuffled / cyclically shifted rows of a diagonally dominant matrix, scaled permutation '
        'matrices), rows scaled by 2^-30..2^30, rank-deficient (zero row, zero column, repeated row, scaled row, sum of rows, singular with '
        'entries -2..2), exactly singular integer matrices with entries -2..2 and n>=4, whole matrices scaled by 2^-60..2^60, threshold_window (smallest pivot at c*eps*max|a|, c in (1/4, 4n), on both sides of and exactly at c = 1 and c = n: pins the threshold formula eps*n*max|a| and the <= through the correspondence), 1x1 and 0x0; malformed: non-square h x w, ragged nested vectors.  Every case goes through every accepted container '
        'type that can hold its numbers (&Arr2D<f64>, Vec<Vec<f64>>, &Vec<Vec<f64>>, and for integers &Arr2D<i32>, &Vec<Vec<i32>>); the harness '
        'reports any difference between them.  distinct = distinct case line; non-trivial = square with n >= 2')
TRUSTED = ['extraction of the float instance (ExtrOcamlBasic, ExtrOCamlFloats, ExtrOCamlInt63) and ocaml/c09.ml',
           'Rust harness harness/src/bin/c09.rs (also asserts that all container types give the same text)',
           'exact oracle tools/props/c09.py (integer/rational arithmetic on the exact values of the floats)']
ASSUMPTIONS = ['theorems are about the R instance (exact arithmetic); finiteness, the n*eps*|L||U| bound and "well-scaled non-singular matrices '
               'are always factored" are rounding statements: measured by the oracle, not proved',
               'reconstruction envelope: |L^U^ - PA|_ij <= 2*n*eps*(|L^||U^|)_ij + n*2^-1000 (standard bound is gamma_n ~ n*eps/2)',
               'must-factor (PLU): 1/(n*||A^-1||_inf) >= 2*(n^3*2^n + 2n)*eps*max|a| (every exact pivot is >= sigma_min/sqrt(n) >= the left side, far above the '
               'threshold eps*n*max|a| of the code plus the rounding perturbation; scale invariant, so it also covers matrices scaled by 2^-60 or 2^60); '
               'must-factor (LU): the same for every leading block, relative to max(|L||U|) of the exact factors with margin 2^-30',
               'must-refuse (LU): an exact leading minor of order < n vanishes and the exact factors up to that pivot are dyadic with <= 20-bit '
               'numerators/denominators (then float arithmetic is exact and rounding cannot hide the zero pivot), or a[0][0] = 0; '
               'must-refuse (PLU): a zero row, a zero column, two identical rows, or a singular integer matrix with entries in -2..2 of ANY size n <= 10 (2x2: -3..3)']
PROFILES = {'quick': ['debug'], 'thorough': ['debug', 'release']}

C_ENV = 2          # envelope constant c in c*n*eps*|L||U|


# ----------------------------------------------------------------- wire
def mat_line(rows, w=None):
    h = len(rows)
    if w is None:
        w = len(rows[0]) if rows else 0
    return ('%d %d %s' % (h, w, ' '.join(f2hex(x) for r in rows for x in r))).strip()


def mk(cmd, rows, cls, w=None):
    return Case('%s %s' % (cmd, mat_line(rows, w)), cls, None)


def both(rows, cls, w=None):
    yield mk('lu', rows, cls, w)
    yield mk('plu', rows, cls, w)


def ragged(cmd, rows, cls):
    body = ' '.join(('%d %s' % (len(r), ' '.join(f2hex(x) for x in r))).strip() for r in rows)
    return Case(('%s %d %s' % (cmd, len(rows), body)).strip(), cls, None)


def parse(case):
    """-> cmd ('lu'|'plu'), h, w (None if ragged), rows"""
    t = case.line.split()
    cmd = t[0]
    if cmd in ('lurag', 'plurag'):
        k = int(t[1]); p = 2; rows = []
        for _ in range(k):
            n = int(t[p]); p += 1
            rows.append([hex2f(x) for x in t[p:p + n]]); p += n
        ws = set(len(r) for r in rows)
        w = ws.pop() if len(ws) == 1 else (0 if not rows else None)
        return cmd[:-3], k, w, rows
    h = int(t[1]); w = int(t[2]); p = 3
    rows = []
    for _ in range(h):
        rows.append([hex2f(x) for x in t[p:p + w]]); p += w
    return cmd, h, w, rows


def parse_out(s, nm):
    """nm = number of matrices expected.  -> ('ok', n, [matrices]) | ('err', kind) | ('panic',) | ('other', text)"""
    t = s.split()
    if not t:
        return ('other', s)
    if t[0] == 'ok':
        try:
            n = int(t[1])
            if len(t) != 2 + nm * n * n:
                return ('other', s)
            vals = [hex2f(x) for x in t[2:]]
        except Exception:
            return ('other', s)
        ms = []
        for q in range(nm):
            base = q * n * n
            ms.append([vals[base + i * n: base + (i + 1) * n] for i in range(n)])
        return ('ok', n, ms)
    if t[0] == 'err' and len(t) == 2:
        return ('err', t[1])
    if t[0] == 'panic' or t[0] == 'abort':
        return ('panic',)
    return ('other', s)


# ----------------------------------------------------------------- exact arithmetic
def to_int(M):
    """matrix of finite floats -> (integer matrix, s) with M = ints / 2^s"""
    pr = [[x.as_integer_ratio() for x in r] for r in M]
    s = 0
    for r in pr:
        for _, d in r:
            b = d.bit_length() - 1
            if b > s:
                s = b
    return [[nu << (s - (d.bit_length() - 1)) for nu, d in r] for r in pr], s


def det_int(M):
    """Bareiss fraction-free determinant of an integer matrix"""
    n = len(M)
    if n == 0:
        return 1
    a = [r[:] for r in M]
    sign = 1
    prev = 1
    for k in range(n - 1):
        if a[k][k] == 0:
            for i in range(k + 1, n):
                if a[i][k] != 0:
                    a[k], a[i] = a[i], a[k]
                    sign = -sign
                    break
            else:
                return 0
        for i in range(k + 1, n):
            for j in range(k + 1, n):
                a[i][j] = (a[i][j] * a[k][k] - a[i][k] * a[k][j]) // prev
        prev = a[k][k]
    return sign * a[n - 1][n - 1]


def doolittle_exact(F):
    """exact Doolittle on a Fraction matrix.  -> (L, U, z): z = index of the first zero pivot (factors valid for rows/columns < z,
    U row z is computed), or None"""
    n = len(F)
    L = [[Fraction(0)] * n for _ in range(n)]
    U = [[Fraction(0)] * n for _ in range(n)]
    for i in range(n):
        for k in range(i, n):
            U[i][k] = F[i][k] - sum(L[i][j] * U[j][k] for j in range(i))
        L[i][i] = Fraction(1)
        if U[i][i] == 0:
            return L, U, i
        for k in range(i + 1, n):
            L[k][i] = (F[k][i] - sum(L[k][j] * U[j][i] for j in range(i))) / U[i][i]
    return L, U, None


def inv_inf_norm(F):
    """exact ||F^-1||_inf of a Fraction matrix, or None if singular"""
    n = len(F)
    a = [list(F[i]) + [Fraction(int(i == j)) for j in range(n)] for i in range(n)]
    for c in range(n):
        p = None
        for r in range(c, n):
            if a[r][c] != 0:
                p = r
                break
        if p is None:
            return None
        a[c], a[p] = a[p], a[c]
        inv = 1 / a[c][c]
        a[c] = [x * inv for x in a[c]]
        for r in range(n):
            if r != c and a[r][c] != 0:
                f = a[r][c]
                a[r] = [x - f * y for x, y in zip(a[r], a[c])]
    return max(sum(abs(x) for x in a[i][n:]) for i in range(n))


def small_dyadic(q):
    d = q.denominator
    return (d & (d - 1)) == 0 and d <= (1 << 20) and abs(q.numerator) < (1 << 20)


def is_small_int_matrix(rows, bound):
    for r in rows:
        for x in r:
            if x != int(x) or abs(x) > bound:
                return False
    return True


# ----------------------------------------------------------------- must-refuse / must-factor classes
def must_refuse_lu(rows):
    n = len(rows)
    if n < 2:
        return None
    F = [[Fraction(x) for x in r] for r in rows]
    L, U, z = doolittle_exact(F)
    if z is None or z >= n - 1:
        return None
    if z == 0:
        return 'a[0][0] = 0 (leading minor of order 1 vanishes; the first pivot is a[0][0] - 0.0)'
    for i in range(z + 1):
        for k in range(i, n):
            if not small_dyadic(U[i][k]):
                return None
    for i in range(z):
        for k in range(i + 1, n):
            if not small_dyadic(L[k][i]):
                return None
    return 'leading minor of order %d vanishes exactly (and float arithmetic is exact up to that pivot)' % (z + 1)


def must_refuse_plu(rows):
    n = len(rows)
    if n == 0:
        return None
    for r in rows:
        if all(x == 0 for x in r):
            return 'zero row'
    for j in range(n):
        if all(rows[i][j] == 0 for i in range(n)):
            return 'zero column'
    seen = set()
    for r in rows:
        key = tuple(x + 0.0 for x in r)          # -0.0 == 0.0 as keys: tuple of floats hashes -0.0 and 0.0 alike
        if key in seen:
            return 'repeated row'
        seen.add(key)
    # after the repair d0c7441 (threshold EPSILON * n * max|a_ij|) this holds for every n
    if is_small_int_matrix(rows, 2) or (n <= 2 and is_small_int_matrix(rows, 3)):
        if det_int([[int(x) for x in r] for r in rows]) == 0:
            return 'singular matrix with entries in -2..2'
    return None


def must_factor_plu(rows):
    n = len(rows)
    if n == 0:
        return True
    F = [[Fraction(x) for x in r] for r in rows]
    nv = inv_inf_norm(F)
    if nv is None:
        return False
    amax = max(abs(x) for r in F for x in r)
    s = 1 / (n * nv)
    return s >= 2 * Fraction(n ** 3 * 2 ** n + 2 * n, 2 ** 52) * amax


def must_factor_lu(rows):
    n = len(rows)
    if n == 0:
        return True
    F = [[Fraction(x) for x in r] for r in rows]
    L, U, z = doolittle_exact(F)
    if z is not None:
        return False
    g = Fraction(0)
    for i in range(n):
        for j in range(n):
            v = sum(abs(L[i][t]) * abs(U[t][j]) for t in range(n))
            if v > g:
                g = v
    for k in range(1, n + 1):
        nv = inv_inf_norm([r[:k] for r in F[:k]])
        if nv is None:
            return False
        if 1 / (k * nv) < g / 2 ** 30:
            return False
    return True


# ----------------------------------------------------------------- the oracle
def finite(M):
    return all(math.isfinite(x) for r in M for x in r)


def perm_of(P):
    """P a 0/1 permutation matrix (exact floats) -> sigma with P[i][sigma[i]] = 1, else None"""
    n = len(P)
    sig = []
    cols = set()
    for i in range(n):
        one = None
        for j in range(n):
            v = P[i][j]
            if v == 1.0:
                if one is not None:
                    return None
                one = j
            elif v != 0.0:
                return None
        if one is None or one in cols:
            return None
        cols.add(one)
        sig.append(one)
    return sig


def reconstruct_ok(L, U, PA):
    """|L U - PA|_ij <= C_ENV*n*eps*(|L||U|)_ij + n*2^-1000, exactly (scaled integers)"""
    n = len(L)
    Li, sl = to_int(L)
    Ui, su = to_int(U)
    Ai, sa = to_int(PA)
    S = sl + su + sa
    e = S + 52 - 1000
    slack = (n << e) if e >= 0 else 0
    for i in range(n):
        Lr = Li[i]
        for j in range(n):
            acc = 0
            ab = 0
            for t in range(n):
                p = Lr[t] * Ui[t][j]
                acc += p
                ab += p if p >= 0 else -p
            D = abs((acc << sa) - (Ai[i][j] << (sl + su)))
            if (D << 52) > C_ENV * n * (ab << sa) + slack:
                return False
    return True


_memo = {}


def judge(case, impl):
    # the same (case, answer) pair is judged once (thorough tier: debug and release profiles)
    key = (case.line, impl)
    if key in _memo:
        return _memo[key]
    v = judge1(case, impl)
    _memo[key] = v
    return v


def judge1(case, impl):
    cmd, h, w, rows = parse(case)
    nm = 3 if cmd == 'plu' else 2
    out = parse_out(impl, nm)
    if out[0] == 'panic':
        return 'panic instead of a result'
    if impl.startswith('container-mismatch'):
        return 'accepted container types give different results'
    if out[0] == 'other':
        return 'malformed output ' + impl[:60]
    if w is None or h != w:
        return None if out[0] == 'err' else 'non-square input is not rejected'
    n = h
    if out[0] == 'err':
        if out[1] != 'SingularMatrix':
            return 'square input rejected with ' + out[1]
        if cmd == 'plu':
            if must_factor_plu(rows):
                return 'non-singular well-scaled matrix refused by the pivoting factorisation'
        else:
            if must_factor_lu(rows):
                return 'matrix with all leading blocks well-conditioned refused by the plain factorisation'
        return None
    # ---- ok
    v = ok_clauses(cmd, n, rows, out)
    if v:
        return v
    why = must_refuse_plu(rows) if cmd == 'plu' else must_refuse_lu(rows)
    if why:
        return MUST_REFUSE + why
    return None


MUST_REFUSE = 'factors returned although the matrix cannot be factored: '
SINGULAR_SMALL_INT = 'singular matrix with entries in -2..2'
F21_WITNESS = [[-1.0, -2.0, 1.0, 2.0], [2.0, -1.0, 1.0, -2.0], [-1.0, 1.0, -1.0, -1.0], [-2.0, -1.0, 0.0, 1.0]]


def ok_clauses(cmd, n, rows, out):
    """every clause about returned factors except the must-refuse classes: size, finiteness, structure, |l|<=1, envelope"""
    if out[1] != n:
        return 'factors have the wrong size'
    L, U = out[2][0], out[2][1]
    if not finite(L) or not finite(U):
        return 'a factor has a non-finite entry'
    for i in range(n):
        if L[i][i] != 1.0:
            return 'L has a non-unit diagonal'
        for j in range(i + 1, n):
            if L[i][j] != 0.0:
                return 'L is not lower triangular'
        for j in range(i):
            if U[i][j] != 0.0:
                return 'U is not upper triangular'
    if cmd == 'plu':
        P = out[2][2]
        sig = perm_of(P)
        if sig is None:
            return 'P is not a permutation matrix'
        for i in range(n):
            for j in range(i):
                if abs(L[i][j]) > 1.0:
                    return 'a multiplier exceeds 1 in absolute value'
        PA = [rows[sig[i]] for i in range(n)]
    else:
        PA = rows
    if not reconstruct_ok(L, U, PA):
        return 'L*U differs from ' + ('P*A' if cmd == 'plu' else 'A') + ' beyond the componentwise envelope'
    return None


def known(case, impl, clause):
    """F21 (known_findings.d/C09.json): ONLY the must-refuse clause for an exactly singular integer matrix with entries in
    -2..2 of order >= 4 that plu factored, with finite factors that pass every other clause (structure, |l| <= 1,
    L U = P A within the envelope).  A slip at n <= 3, a non-finite output or any other clause stays a violation."""
    if clause != MUST_REFUSE + SINGULAR_SMALL_INT:
        return None
    cmd, h, w, rows = parse(case)
    if cmd != 'plu' or w is None or h != w or h < 4:
        return None
    if not is_small_int_matrix(rows, 2) or det_int([[int(x) for x in r] for r in rows]) != 0:
        return None
    out = parse_out(impl, 3)
    if out[0] != 'ok' or not all(finite(m) for m in out[2]):
        return None
    if ok_clauses(cmd, h, rows, out) is not None:
        return None
    return 'F21 exactly singular -2..2 matrix of order %d factored: rounding residue in the last pivot above n*eps*max|a|' % h


def compare(case, impl, model):
    return impl == model            # bit for bit, signs of zero included


def nontrivial(case, impl):
    cmd, h, w, rows = parse(case)
    return w is not None and h == w and h >= 2


def describe(case):
    cmd, h, w, rows = parse(case)
    return {'op': cmd, 'shape': [h, w], 'rows': rows[:4] if (w or 0) <= 4 else [r[:4] for r in rows[:4]]}


# ----------------------------------------------------------------- generator
def rnd_dense(rng, n):
    kind = rng.randrange(4)
    if kind == 0:
        return [[rng.uniform(-1, 1) for _ in range(n)] for _ in range(n)]
    if kind == 1:
        return [[rng.gauss(0, 1) for _ in range(n)] for _ in range(n)]
    if kind == 2:
        s = 10 ** rng.uniform(-3, 3)
        return [[s * rng.uniform(-1, 1) for _ in range(n)] for _ in range(n)]
    return [[rng.choice([0.0, -0.0, 1.0, -1.0, 0.5, 2.0, rng.uniform(-4, 4)]) for _ in range(n)] for _ in range(n)]


def rnd_int(rng, n, b):
    return [[float(rng.randint(-b, b)) for _ in range(n)] for _ in range(n)]


def diag_dominant(rng, n):
    m = [[rng.uniform(-1, 1) for _ in range(n)] for _ in range(n)]
    for i in range(n):
        m[i][i] = (n + 1 + rng.random()) * rng.choice([-1, 1])
    return m


def zero_minor(rng, n):
    """a matrix one of whose leading minors of order < n vanishes (n >= 2)"""
    kind = rng.randrange(4)
    if kind == 0:
        m = rnd_dense(rng, n)
        m[0][0] = 0.0
        return m
    if kind == 1:
        m = rnd_int(rng, n, 5)
        m[0][0] = 0.0
        return m
    if kind == 2:
        # integer unit-lower L0 times integer upper U0 with a zero pivot at z < n-1
        z = rng.randrange(0, n - 1)
        L0 = [[0] * n for _ in range(n)]
        U0 = [[0] * n for _ in range(n)]
        for i in range(n):
            L0[i][i] = 1
            for j in range(i):
                L0[i][j] = rng.randint(-2, 2)
            for j in range(i, n):
                U0[i][j] = rng.randint(-3, 3)
            if U0[i][i] == 0:
                U0[i][i] = rng.choice([-2, -1, 1, 2])
        U0[z][z] = 0
        return [[float(sum(L0[i][t] * U0[t][j] for t in range(n))) for j in range(n)] for i in range(n)]
    # row k of the leading (k+1)-block is a dyadic multiple of row 0 inside the block
    m = rnd_dense(rng, n)
    k = rng.randrange(1, n) if n > 2 else 1
    if k >= n - 1 and n > 2:
        k = n - 2
    if n == 2:
        m[0][0] = 0.0
        return m
    c = rng.choice([0.5, 2.0, -1.0, 1.0, 4.0])
    # make rows 0..k of the leading block dependent in the simplest robust way: k = 1
    m[1][0] = c * m[0][0]
    m[1][1] = c * m[0][1]
    return m


def shuffled(rng, n):
    kind = rng.randrange(4)
    base = diag_dominant(rng, n)
    if kind == 0:
        rng.shuffle(base)
        return base
    if kind == 1:
        s = rng.randrange(1, n) if n > 1 else 0
        return base[s:] + base[:s]
    if kind == 2:
        # scaled permutation matrix
        sig = list(range(n))
        rng.shuffle(sig)
        return [[(rng.choice([-1, 1]) * 2.0 ** rng.randint(-3, 3) if j == sig[i] else 0.0) for j in range(n)] for i in range(n)]
    # cyclic shift of the identity plus small noise
    s = rng.randrange(1, n) if n > 1 else 0
    return [[(1.0 if j == (i + s) % n else 0.0) + rng.uniform(-0.05, 0.05) for j in range(n)] for i in range(n)]


def row_scaled(rng, n):
    m = rnd_dense(rng, n)
    for i in range(n):
        s = 2.0 ** rng.randint(-30, 30)
        m[i] = [x * s for x in m[i]]
    return m


def rank_deficient(rng, n):
    kind = rng.randrange(8)
    m = rnd_dense(rng, n) if rng.random() < 0.5 else rnd_int(rng, n, 4)
    if n == 1:
        return [[rng.choice([0.0, -0.0])]]
    a, b = rng.sample(range(n), 2)
    if kind == 0:
        m[a] = [0.0] * n
    elif kind == 1:
        for i in range(n):
            m[i][a] = 0.0
    elif kind == 2:
        m[a] = list(m[b])
    elif kind == 3:
        m[a] = [2.0 * x for x in m[b]]
    elif kind == 4 and n >= 3:
        c = [i for i in range(n) if i not in (a, b)][0]
        m[a] = [x + y for x, y in zip(m[b], m[c])]
    elif kind == 5:
        for i in range(n):
            m[i][a] = m[i][b]
    else:
        # singular with entries in -2..2
        m = rnd_int(rng, n, 2)
        sub = rng.randrange(4)
        if sub == 0:
            m[a] = list(m[b])
        elif sub == 1:
            m[a] = [-x for x in m[b]]
        elif sub == 2:
            m = rnd_int(rng, n, 1)
            c = rng.randrange(n)
            others = [i for i in range(n) if i != c]
            p, q = (others + others)[:2]
            m[c] = [max(-2.0, min(2.0, m[p][j] + m[q][j])) if p != q else m[p][j] for j in range(n)]
            if det_int([[int(x) for x in r] for r in m]) != 0:
                m[c] = list(m[p])
        else:
            for i in range(n):
                m[i][a] = 0.0
    return m


def singular_int(rng, n):
    """exactly singular, entries in -2..2: one row is +-(sum or difference of two others)"""
    while True:
        m = rnd_int(rng, n, 2)
        c = rng.randrange(n)
        a, b = rng.sample([i for i in range(n) if i != c], 2)
        sg = rng.choice([1, -1])
        s2 = rng.choice([1, -1])
        row = [sg * (m[a][j] + s2 * m[b][j]) for j in range(n)]
        if all(abs(x) <= 2 for x in row):
            m[c] = row
            return m


def threshold_window(rng, n, c, k, exact):
    """a non-singular matrix whose pivot number k under partial pivoting is c * eps * max|a| (the code's threshold is
    n * eps * max|a|).  A = P^T L U with L unit lower, |l_ij| <= 1/2 (so partial pivoting undoes P and reproduces L, U),
    U with diagonal +-1 / +-2 except u_kk = p.  exact=True: dyadic entries with few bits and a zero column above u_kk, so
    A, every elimination step and the threshold are exact in binary64 and the computed pivot/threshold ratio is exactly
    c/n; exact=False: dense U, A rounded from exact rationals, the computed pivot lands near c*eps*max|a|."""
    half = [Fraction(0), Fraction(1, 2), Fraction(-1, 2), Fraction(1, 4), Fraction(-1, 4)]
    L = [[Fraction(int(i == j)) for j in range(n)] for i in range(n)]
    U = [[Fraction(0)] * n for _ in range(n)]
    for i in range(n):
        for j in range(i):
            L[i][j] = rng.choice(half) if exact else Fraction(rng.randint(-512, 512), 1024)
        U[i][i] = Fraction(rng.choice([1, -1, 2, -2]))
        for j in range(i + 1, n):
            U[i][j] = Fraction(rng.choice([0, 1, -1, 2, -2, 1, -1])) / rng.choice([1, 2]) if exact else Fraction(rng.randint(-2048, 2048), 1024)
    if exact:
        for t in range(k):
            U[t][k] = Fraction(0)
    sig = list(range(n))
    rng.shuffle(sig)
    sh = 2 ** rng.choice([0, 0, 0, -20, 20, 7, -3])

    def build(p):
        U[k][k] = p
        M = [[sum(L[i][t] * U[t][j] for t in range(min(i, j) + 1)) * sh for j in range(n)] for i in range(n)]
        return [M[sig[i]] for i in range(n)]
    scale = max(abs(x) for r in build(Fraction(0)) for x in r)
    p = Fraction(c) * Fraction(1, 2 ** 52) * scale * rng.choice([1, -1]) / sh
    A = build(p)
    rows = [[float(x) for x in r] for r in A]
    if exact:
        assert all(Fraction(rows[i][j]) == A[i][j] for i in range(n) for j in range(n))
    return rows


def threshold_window_cases(rng, count):
    out = []
    for q in range(count):
        n = 2 + q % 9
        exact = q % 3 != 2
        k = n - 1 if q % 2 == 0 else rng.randrange(0, n)
        cs = [Fraction(1, 4), Fraction(1, 2), Fraction(3, 4), 1 - Fraction(1, 2 ** 20), Fraction(1), 1 + Fraction(1, 2 ** 20),
              Fraction(5, 4), Fraction(n, 2), Fraction(n) - Fraction(1, 4), n * (1 - Fraction(1, 2 ** 20)), Fraction(n),
              n * (1 + Fraction(1, 2 ** 20)), Fraction(n) + Fraction(1, 4), Fraction(2 * n), Fraction(4 * n) - Fraction(1, 2),
              Fraction(n + 1, 2), Fraction(3 * n, 4)]
        c = cs[q % len(cs)] if q < 2 * len(cs) else Fraction(rng.randint(1, 16 * n), 4)
        out.append(threshold_window(rng, n, c, k, exact))
    return out


def gen(rng, tier):
    quick = tier == 'quick'
    # exhaustive 2x2, entries -3..3
    for e in itertools.product(range(-3, 4), repeat=4):
        rows = [[float(e[0]), float(e[1])], [float(e[2]), float(e[3])]]
        yield from both(rows, 'ex2x2')
    # 3x3, entries -2..2
    if quick:
        for _ in range(1200):
            yield from both(rnd_int(rng, 3, 2), 's3x3')
    else:
        for e in itertools.product((-2.0, -1.0, 0.0, 1.0, 2.0), repeat=9):
            rows = [list(e[0:3]), list(e[3:6]), list(e[6:9])]
            yield from both(rows, 'ex3x3')
    k = 1 if quick else 25
    for m in threshold_window_cases(rng, 44 if quick else 600):
        yield mk('plu', m, 'threshold_window')
    # the fixed witness of the known finding F21 (keeps the KNOWN-FINDING line stable)
    yield from both(F21_WITNESS, 'f21witness')
    # edge sizes
    yield from both([], 'empty')
    for v in (0.0, -0.0, 1.0, -3.5, 2.0 ** -52, 2.0 ** -53, 1e-20, 5e-324, 1e6):
        yield from both([[v]], '1x1')
    # random classes
    for _ in range(160 * k):
        n = rng.choice([2, 3, 4, 5, 6, 7, 8, 9, 10, rng.randint(1, 10)])
        yield from both(rnd_dense(rng, n), 'dense')
    for _ in range(120 * k):
        n = rng.randint(1, 10)
        yield from both(rnd_int(rng, n, rng.choice([1, 2, 3, 9, 100])), 'int')
    for _ in range(160 * k):
        n = rng.randint(2, 10)
        yield from both(zero_minor(rng, n), 'zerominor')
    for _ in range(160 * k):
        n = rng.randint(2, 10)
        yield from both(shuffled(rng, n), 'permheavy')
    for _ in range(120 * k):
        n = rng.randint(1, 10)
        yield from both(row_scaled(rng, n), 'rowscaled')
    for _ in range(200 * k):
        n = rng.randint(1, 10)
        yield from both(rank_deficient(rng, n), 'rankdef')
    for _ in range(60 * k):
        n = rng.randint(2, 10)
        yield from both(diag_dominant(rng, n), 'diagdom')
    for _ in range(240 * k):
        n = rng.randint(4, 10)
        yield from both(singular_int(rng, n), 'singint')
    for _ in range(120 * k):
        n = rng.randint(1, 10)
        m = diag_dominant(rng, n) if rng.random() < 0.4 else rnd_dense(rng, n)
        sc = 2.0 ** rng.choice([-60, 60, -40, 40, rng.randint(-60, 60)])
        yield from both([[x * sc for x in r] for r in m], 'scaled')
    # malformed: non-square rectangles
    shapes = [(0, 1), (0, 3), (1, 0), (3, 0), (1, 2), (2, 1), (2, 3), (3, 2), (1, 5), (5, 1), (4, 3), (3, 4), (10, 9), (9, 10), (2, 10)]
    for (h, w) in shapes * (1 if quick else 5):
        rows = [[float(rng.randint(-3, 3)) if rng.random() < 0.5 else rng.uniform(-2, 2) for _ in range(w)] for _ in range(h)]
        yield from both(rows, 'nonsquare', w)
    # malformed: ragged nested vectors (and a few consistent ones through the same path)
    for _ in range(30 * k):
        hh = rng.randint(1, 5)
        lens = [rng.randint(0, 5) for _ in range(hh)]
        if len(set(lens)) == 1 and hh > 1:
            lens[-1] += 1
        rows = [[float(rng.randint(-3, 3)) for _ in range(l)] for l in lens]
        yield ragged('lurag', rows, 'ragged')
        yield ragged('plurag', rows, 'ragged')
    for _ in range(10 * k):
        n = rng.randint(0, 4)
        rows = rnd_int(rng, n, 3)
        yield ragged('lurag', rows, 'nested')
        yield ragged('plurag', rows, 'nested')


# ---- extraction cross-check: the same cases evaluated inside Coq by vm_compute
from tools import xenc
COQ_IMPORTS = 'Base.XEnc Base.Mat Model.LU'
XCHECK_N = 200
# Ok -> 0 :: n :: entries of L, U (, P) row-major, read back through lists_of_mat exactly as the driver does
_X_MATS = '(fun n ms => Z.of_nat n :: flat_map (fun m => map float_bits (concat (@lists_of_mat float n n m))) ms)'


def coq_term(case):
    t = xenc.Toks(case.line)
    cmd = t.word()
    if cmd in ('lu', 'plu'):
        h, w, rows = t.fmat()
        n = h
    elif cmd in ('lurag', 'plurag'):
        rows = [t.fvec() for _ in range(t.int())]
        n = len(rows)
    else:
        return None
    # crc thinning below XCHECK_N (every eligible case is then taken); functional matrices are slow under
    # vm_compute, so the larger sizes are thinned harder
    if not xenc.keep(case, 250 if n <= 3 else 22 if n <= 6 else 60):
        return None
    pick = '[fst r; snd r]' if cmd.startswith('lu') else '[fst (fst r); snd (fst r); snd r]'
    if cmd in ('lu', 'plu'):
        return ('enc_res (fun r => %s %d%%nat %s) (@%s float FNum %d%%nat %d%%nat (@mat_of_lists float FNum %s))'
                % (_X_MATS, h, pick, cmd, h, w, xenc.cq_fmat(rows)))
    return ('enc_res (fun nr => let r := snd nr in %s (fst nr) %s) (@%s_rows float FNum %s)'
            % (_X_MATS, pick, cmd[:-3], xenc.cq_fmat(rows)))


def encode_result(case, model_line):
    return xenc.enc_line(model_line, lambda t: [int(t[0])] + [xenc.float_tok_bits(x) for x in t[1:]])
