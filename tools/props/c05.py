# C05 — Simpson / trapezoid / Romberg quadrature: generator, exact-rational oracle, comparison.
#
# wire format (one case per line):
#   ds <n> <a> <b> <k c0..ck-1>                 definite_integral on a SimplePolynomial
#   di <n> <a> <b> <ipoly>                      ... on an IntermediatePolynomial
#   rs <cap> <tol> <a> <b> <k c0..ck-1>         romberg_definite on a SimplePolynomial
#   ri <cap> <tol> <a> <b> <ipoly>              ... on an IntermediatePolynomial
#   <ipoly> = nt (coef nv (name pow)*)*  nvars name*      (names as code points "len c1..")
# results: "ok <hex>" | "err MaxIterationsReached" | "err FunctionError <PolynomialError kind>" | "panic"
from fractions import Fraction
import math
from tools.lib import Case, f2hex, hex2f, same_float_tok, cps

ID = 'C05'
EPS = Fraction(1, 2 ** 52)
TINY = Fraction(1, 2 ** 900)
RULE = ('polynomials of degree 0..8 (coefficient classes: small integers, reals, dyadic, mixed magnitudes, sparse, odd) '
        'of both polynomial types x intervals (unit, symmetric, general, reversed, empty, far from 0, tiny, dyadic) x '
        'segment counts 1..200 by class {0,1,2,3,5, even, odd, 199, 200}; Romberg caps 0..24 and {32,63,64,65,66,100,1000,2^32-1} '
        'x tolerances {0,1e-12..1e2,inf,nan,-1}, with cases placed (by a float simulation used for case selection only) '
        'exactly at and one below the cap at which convergence happens, zero integrals, and runs forced to the cap; '
        'malformed IntermediatePolynomials (two variables, unbound variable); distinct = distinct case line; '
        'non-trivial = degree >= 1 on a non-empty interval with n >= 2, or a Romberg run that executes >= 1 extrapolation')
TRUSTED = ['extraction of the float instance (ExtrOcamlBasic, ExtrOCamlFloats, ExtrOCamlInt63) and ocaml/c05.ml',
           'Rust harness harness/src/bin/c05.rs (builds SimplePolynomial / IntermediatePolynomial from their public fields)',
           'exact-rational oracle tools/props/c05.py (exact integral, trapezoid value, piecewise Taylor upper bound of max|f\'\'\'\'|)',
           'IntermediatePolynomial evaluation uses libm powf: compared under a relative envelope, judged by the exact oracle']
ASSUMPTIONS = ['exactness theorems are about the R instance (exact arithmetic); rounding envelopes are measured, not proved',
               'usize is 64 bits (2_usize.checked_pow(iter) fails from iter = 64 on)',
               'caps whose run would need more than 2^23 evaluations are covered by the theorem c05_romberg_total only',
               'f64::powi == compiler-rt square-and-multiply (npowi), measured by the bit-for-bit comparison']
PROFILES = {'quick': ['debug'], 'thorough': ['debug', 'release']}

TOLS = [0.0, 1e-12, 1e-9, 1e-6, 1e-3, 1.0, 1e2]


# ------------------------------------------------------------------ float simulation (case selection only)
def powi(a, n):
    r = 1.0
    while True:
        if n & 1:
            r *= a
        n //= 2
        if n == 0:
            break
        a *= a
    return r


def fdiv(x, y):
    if y == 0.0:
        if x == 0.0 or x != x:
            return float('nan')
        return math.copysign(float('inf'), x) * math.copysign(1.0, y)
    return x / y


def eval_simple(cs, x):
    s = -0.0
    for i, c in enumerate(cs):
        s += c * powi(x, i)
    return s


def sim_trap(cs, a, b, n):
    xi = a
    h = fdiv(b - a, float(n))
    s = eval_simple(cs, xi)
    for _ in range(1, n):
        xi += h
        s += 2.0 * eval_simple(cs, xi)
    s += eval_simple(cs, b)
    return h * s / 2.0


def sim_romberg(cs, a, b, cap, tol, budget=14):
    """-> (kind, value, iterations executed, robust) ; kind in ok/max/budget.
    robust = every stopping decision has a wide margin (used for the libm-evaluated polynomial type)"""
    ts = min(max(cap, 1), 64) + 2
    T = [[0.0] * ts for _ in range(ts)]
    T[1][1] = sim_trap(cs, a, b, 1)
    it = 0
    robust = True
    while True:
        it += 1
        if it >= 64:
            return ('max', None, it, robust)
        if it > budget:
            return ('budget', None, it, robust)
        T[it + 1][1] = sim_trap(cs, a, b, 2 ** it)
        for k in range(2, it + 2):
            j = 2 + it - k
            p = powi(4.0, k - 1)
            T[j][k] = fdiv(p * T[j + 1][k - 1] - T[j][k - 1], p - 1.0)
        ae = abs(fdiv(abs(T[1][it + 1] - T[2][it]), T[1][it + 1])) * 100.0
        if not (tol != tol or tol < 0):
            if ae != ae or math.isinf(ae):
                robust = False
            elif ae > 1e-8:
                if abs(ae - tol) <= 1e-3 * max(ae, tol):
                    robust = False
            else:
                if not (tol >= 1e4 * ae + 1e-11):
                    robust = False
        if it >= cap or ae <= tol:
            break
    if it >= cap:
        return ('max', None, it, robust)
    return ('ok', T[1][it + 1], it, robust)


# ------------------------------------------------------------------ generators
def gen_coefs(rng, deg, cls):
    def lead(f):
        while True:
            v = f()
            if v != 0:
                return v
    if cls == 'int':
        f = lambda: float(rng.randint(-9, 9))
    elif cls == 'real':
        f = lambda: rng.uniform(-10, 10)
    elif cls == 'dyadic':
        f = lambda: rng.randint(-64, 64) / 8.0
    elif cls == 'mixed':
        f = lambda: rng.choice([-1, 1]) * 10 ** rng.uniform(-3, 3)
    elif cls == 'sparse':
        f = lambda: rng.choice([0.0, 0.0, 0.0, float(rng.randint(-5, 5))])
    elif cls == 'odd':
        cs = [0.0 if k % 2 == 0 else float(rng.randint(-9, 9)) for k in range(deg + 1)]
        if deg % 2 == 1:
            cs[deg] = lead(lambda: float(rng.randint(-9, 9)))
        else:
            cs[deg] = 0.0
            while cs and cs[-1] == 0.0:
                cs.pop()
            if not cs:
                cs = [0.0, 1.0]
        return cs
    else:
        raise ValueError(cls)
    cs = [f() for _ in range(deg)]
    cs.append(lead(f if cls != 'sparse' else (lambda: float(rng.randint(-5, 5)))))
    return cs


COEF_CLASSES = ['int', 'real', 'dyadic', 'mixed', 'sparse', 'odd']
INTERVAL_CLASSES = ['unit', 'sym', 'general', 'reversed', 'empty', 'far', 'tiny', 'dyadic', 'revsym']


def gen_interval(rng, cls):
    if cls == 'unit':
        return 0.0, 1.0
    if cls == 'sym':
        c = rng.choice([1.0, 2.0, 0.5, 3.0, rng.uniform(0.1, 5)])
        return -c, c
    if cls == 'revsym':
        c = rng.choice([1.0, 2.0, rng.uniform(0.1, 5)])
        return c, -c
    if cls == 'general':
        a = rng.uniform(-10, 10)
        return a, a + rng.uniform(0.01, 10)
    if cls == 'reversed':
        a = rng.uniform(-10, 10)
        return a + rng.uniform(0.01, 10), a
    if cls == 'empty':
        a = rng.choice([0.0, 1.0, -2.5, rng.uniform(-10, 10)])
        return a, a
    if cls == 'far':
        a = rng.choice([100.0, -100.0, 37.5]) + rng.random()
        return a, a + rng.uniform(0.001, 2)
    if cls == 'tiny':
        a = rng.uniform(-3, 3)
        return a, a + rng.choice([1e-6, 1e-9, -1e-6])
    if cls == 'dyadic':
        a = rng.randint(-4, 4) / 2.0
        b = rng.randint(-4, 4) / 2.0
        return a, b
    raise ValueError(cls)


def gen_n(rng):
    c = rng.choice(['one', 'two', 'three', 'five', 'even', 'odd', 'even', 'odd', 'any', 'edge', 'pow2'])
    if c == 'one':
        return 1
    if c == 'two':
        return 2
    if c == 'three':
        return 3
    if c == 'five':
        return 5
    if c == 'even':
        return 2 * rng.randint(2, 100)
    if c == 'odd':
        return 2 * rng.randint(3, 99) + 1
    if c == 'edge':
        return rng.choice([4, 6, 7, 9, 199, 200, 198, 197])
    if c == 'pow2':
        return rng.choice([2, 4, 8, 16, 32, 64, 128])
    return rng.randint(1, 200)


def ipoly_wire(cs, rng, var='x', style='desc', malformed=None):
    """IntermediatePolynomial with one term per non-zero coefficient (as the parser builds it)"""
    terms = []
    for k, c in enumerate(cs):
        if c == 0.0 and style != 'keepzero':
            continue
        if k == 0:
            terms.append((c, []))
        else:
            terms.append((c, [(var, float(k))]))
    if style == 'desc':
        terms.reverse()
    elif style == 'shuffle':
        rng.shuffle(terms)
    elif style == 'split' and len(cs) >= 3:
        # x^k written as x^(k-1) * x  (same variable twice inside a term)
        terms = [(c, ([(var, float(vs[0][1] - 1)), (var, 1.0)] if vs and vs[0][1] >= 2 else vs)) for c, vs in terms]
    has_var = any(vs for _, vs in terms)
    variables = [var] if has_var else []
    if malformed == 'twovars':
        variables = [var, 'y' if var != 'y' else 'z']
    elif malformed == 'unbound':
        terms.append((1.0, [('q', 1.0)]))
        if not variables:
            variables = [var]
    elif malformed == 'novars':
        if not has_var:
            terms.append((2.0, [(var, 1.0)]))
        variables = []
    out = [str(len(terms))]
    for c, vs in terms:
        out.append(f2hex(c))
        out.append(str(len(vs)))
        for nm, p in vs:
            out.append(cps(nm))
            out.append(f2hex(p))
    out.append(str(len(variables)))
    for v in variables:
        out.append(cps(v))
    return ' '.join(out)


def svec(cs):
    return ('%d %s' % (len(cs), ' '.join(f2hex(c) for c in cs))).strip()


def pairs(rng, count):
    """(coefficient class, coefs, interval class, a, b), degrees cycling 0..8"""
    out = []
    for i in range(count):
        deg = i % 9
        ccls = COEF_CLASSES[(i // 9) % len(COEF_CLASSES)] if i < 9 * len(COEF_CLASSES) else rng.choice(COEF_CLASSES)
        cs = gen_coefs(rng, deg, ccls)
        icls = rng.choice(INTERVAL_CLASSES)
        if ccls == 'odd' and rng.random() < 0.7:
            icls = rng.choice(['sym', 'revsym'])
        a, b = gen_interval(rng, icls)
        out.append((ccls, cs, icls, a, b))
    return out


def gen(rng, tier):
    quick = tier == 'quick'
    scale = 1 if quick else 12
    # ---------------- definite_integral
    for ccls, cs, icls, a, b in pairs(rng, 150 * scale):
        d = len(cs) - 1
        ns = {gen_n(rng) for _ in range(4)}
        ns |= {rng.choice([1, 2, 3, 5])}
        for n in sorted(ns):
            pc = 'n1' if n == 1 else ('n3' if n == 3 else ('even' if n % 2 == 0 else 'odd'))
            yield Case('ds %d %s %s %s' % (n, f2hex(a), f2hex(b), svec(cs)), 'simpson-simple-%s-%s' % (pc, icls), None)
        for n in sorted(ns)[:3]:
            pc = 'n1' if n == 1 else ('n3' if n == 3 else ('even' if n % 2 == 0 else 'odd'))
            style = rng.choice(['desc', 'desc', 'asc', 'shuffle', 'split', 'keepzero'])
            var = rng.choice(['x', 'x', 'y', 't', 'xy'])
            yield Case('di %d %s %s %s' % (n, f2hex(a), f2hex(b), ipoly_wire(cs, rng, var, style)),
                       'simpson-inter-%s-%s' % (pc, icls), None)
    # n = 0 (outside the property's quantifier: correspondence only) and malformed polynomials
    for ccls, cs, icls, a, b in pairs(rng, 8 * scale):
        yield Case('ds 0 %s %s %s' % (f2hex(a), f2hex(b), svec(cs)), 'simpson-n0', None)
        for mal in ('twovars', 'unbound', 'novars'):
            n = gen_n(rng)
            yield Case('di %d %s %s %s' % (n, f2hex(a), f2hex(b), ipoly_wire(cs, rng, 'x', 'desc', mal)),
                       'simpson-malformed', None)
            yield Case('ri %d %s %s %s %s' % (rng.randint(0, 6), f2hex(rng.choice(TOLS)), f2hex(a), f2hex(b),
                                              ipoly_wire(cs, rng, 'x', 'desc', mal)), 'romberg-malformed', None)
    # empty coefficient vector / polynomial without terms
    yield Case('ds 4 %s %s 0' % (f2hex(0.0), f2hex(1.0)), 'simpson-emptypoly', None)
    yield Case('rs 4 %s %s %s 0' % (f2hex(1e-3), f2hex(0.0), f2hex(1.0)), 'romberg-emptypoly', None)
    yield Case('di 4 %s %s 0 0' % (f2hex(0.0), f2hex(1.0)), 'simpson-emptypoly', None)

    # ---------------- romberg_definite
    big_caps = [13, 14, 15, 16, 17, 18, 19, 20, 21, 22, 23, 24, 32, 63, 64, 65, 66, 100, 1000, 4294967295]
    for ccls, cs, icls, a, b in pairs(rng, 72 * scale):
        # A: caps 0..12 x tolerances
        combos = {(rng.randint(0, 12), rng.choice(TOLS)) for _ in range(5)}
        combos |= {(rng.choice([0, 1, 2]), rng.choice(TOLS))}
        for cap, tol in sorted(combos):
            kind, v, it, robust = sim_romberg(cs, a, b, min(cap, 11), tol, budget=11)
            if cap > 11 and kind != 'ok':
                cap = 11            # a run to the cap: keep it affordable
            yield Case('rs %d %s %s %s %s' % (cap, f2hex(tol), f2hex(a), f2hex(b), svec(cs)),
                       'romberg-simple-%s' % icls, {'iters': it, 'sim': kind})
            if robust and rng.random() < 0.6:
                yield Case('ri %d %s %s %s %s' % (cap, f2hex(tol), f2hex(a), f2hex(b), ipoly_wire(cs, rng)),
                           'romberg-inter-%s' % icls, {'iters': it, 'sim': kind})
        # B: exactly at the cap / one above
        tol = rng.choice(TOLS[1:])
        kind, v, it, robust = sim_romberg(cs, a, b, 12, tol, budget=12)
        if kind == 'ok':
            for cap in (it, it + 1):
                yield Case('rs %d %s %s %s %s' % (cap, f2hex(tol), f2hex(a), f2hex(b), svec(cs)),
                           'romberg-simple-atcap', {'iters': it, 'sim': kind})
                if robust:
                    yield Case('ri %d %s %s %s %s' % (cap, f2hex(tol), f2hex(a), f2hex(b), ipoly_wire(cs, rng)),
                               'romberg-inter-atcap', {'iters': it, 'sim': kind})
            # C: large caps that converge early
            cap = rng.choice(big_caps)
            yield Case('rs %d %s %s %s %s' % (cap, f2hex(tol), f2hex(a), f2hex(b), svec(cs)),
                       'romberg-simple-bigcap', {'iters': it, 'sim': kind})
            if robust:
                yield Case('ri %d %s %s %s %s' % (cap, f2hex(tol), f2hex(a), f2hex(b), ipoly_wire(cs, rng)),
                           'romberg-inter-bigcap', {'iters': it, 'sim': kind})
        # special tolerances
        for tol in (float('inf'), float('nan'), -1.0):
            if rng.random() < 0.4:
                cap = rng.randint(0, 9)
                yield Case('rs %d %s %s %s %s' % (cap, f2hex(tol), f2hex(a), f2hex(b), svec(cs)),
                           'romberg-simple-specialtol', None)
                if tol != float('inf'):
                    yield Case('ri %d %s %s %s %s' % (cap, f2hex(tol), f2hex(a), f2hex(b), ipoly_wire(cs, rng)),
                               'romberg-inter-specialtol', None)
    # D: runs forced to a large cap (never converge: tolerance -1 / NaN, or a zero integral with tolerance 0)
    forced = [13, 14, 15, 16] if quick else [13, 14, 15, 16, 17, 18, 19, 20, 21, 22]
    for cap in forced:
        deg = rng.randint(1, 3) if cap > 16 else rng.randint(1, 8)
        cs = gen_coefs(rng, deg, 'int')
        a, b = gen_interval(rng, rng.choice(['unit', 'general', 'reversed']))
        tol = rng.choice([-1.0, float('nan')])
        yield Case('rs %d %s %s %s %s' % (cap, f2hex(tol), f2hex(a), f2hex(b), svec(cs)), 'romberg-simple-forced', None)
        if cap <= 15 or not quick and cap <= 18:
            yield Case('ri %d %s %s %s %s' % (cap, f2hex(tol), f2hex(a), f2hex(b), ipoly_wire(cs, rng)),
                       'romberg-inter-forced', None)
    for cap in (forced[:2] if quick else forced[:6]):
        cs = gen_coefs(rng, rng.choice([1, 3, 5]), 'odd')
        yield Case('rs %d %s %s %s %s' % (cap, f2hex(0.0), f2hex(-1.0), f2hex(1.0), svec(cs)), 'romberg-simple-zerointegral', None)


# ------------------------------------------------------------------ parsing
def parse(case):
    t = case.line.split()
    cmd = t[0]
    pos = [1]

    def tok():
        pos[0] += 1
        return t[pos[0] - 1]
    d = {'cmd': cmd}
    if cmd in ('ds', 'di'):
        d['n'] = int(tok())
    else:
        d['cap'] = int(tok())
        d['tol'] = hex2f(tok())
    d['a'] = hex2f(tok())
    d['b'] = hex2f(tok())
    d['malformed'] = None
    if cmd in ('ds', 'rs'):
        k = int(tok())
        cs = [hex2f(tok()) for _ in range(k)]
        d['terms'] = [(c, i) for i, c in enumerate(cs)]
    else:
        nt = int(tok())
        terms = []
        names = set()
        for _ in range(nt):
            c = hex2f(tok())
            nv = int(tok())
            e = 0
            for _ in range(nv):
                ln = int(tok())
                nm = ''.join(chr(int(tok())) for _ in range(ln))
                p = hex2f(tok())
                names.add(nm)
                e += int(p)
            terms.append((c, e))
        nvars = int(tok())
        vs = []
        for _ in range(nvars):
            ln = int(tok())
            vs.append(''.join(chr(int(tok())) for _ in range(ln)))
        if nvars > 1:
            d['malformed'] = 'TooManyVariables'
        elif any(nm not in vs[:1] for nm in names):
            d['malformed'] = 'VariableNotFound'
        d['terms'] = terms
    return d


def coef_list(terms):
    deg = max([e for c, e in terms if c != 0.0] or [0])
    cs = [Fraction(0)] * (deg + 1)
    for c, e in terms:
        if c != 0.0:
            cs[e] += Fraction(c)
    while len(cs) > 1 and cs[-1] == 0:
        cs.pop()
    return cs


def describe(case):
    d = parse(case)
    out = {'op': {'ds': 'definite_integral(SimplePolynomial)', 'di': 'definite_integral(IntermediatePolynomial)',
                  'rs': 'romberg_definite(SimplePolynomial)', 'ri': 'romberg_definite(IntermediatePolynomial)'}[d['cmd']],
           'a': d['a'], 'b': d['b'], 'terms(coef,exponent)': d['terms'][:10]}
    for k in ('n', 'cap', 'tol', 'malformed'):
        if k in d and d[k] is not None:
            out[k] = d[k] if d[k] == d[k] else 'nan'
    return out


# ------------------------------------------------------------------ exact arithmetic
def pev(cs, x):
    r = Fraction(0)
    for c in reversed(cs):
        r = r * x + c
    return r


def pderiv(cs):
    return [k * c for k, c in enumerate(cs)][1:] or [Fraction(0)]


def exact_integral(cs, a, b):
    F = [Fraction(0)] + [c / (k + 1) for k, c in enumerate(cs)]
    return pev(F, b) - pev(F, a)


def abs_upper_bound(cs, lo, hi, pieces=16):
    """upper bound of max |q| on [lo, hi] (exact rationals): Taylor expansion around the midpoint of each piece"""
    if lo == hi:
        return abs(pev(cs, lo))
    ds = [cs]
    while len(ds[-1]) > 1:
        ds.append(pderiv(ds[-1]))
    w = (hi - lo) / pieces
    r = w / 2
    best = Fraction(0)
    for i in range(pieces):
        mid = lo + w * i + r
        bnd = Fraction(0)
        fact = 1
        for k, dk in enumerate(ds):
            if k > 0:
                fact *= k
            bnd += abs(pev(dk, mid)) * r ** k / fact
        best = max(best, bnd)
    return best


def scale_S(terms, a, b):
    M = max(abs(Fraction(a)), abs(Fraction(b)))
    return sum(abs(Fraction(c)) * M ** e for c, e in terms)


def envelope(d, n, c=16):
    """c * (n+4) * eps * (deg+1) * sum|c_k| max(|a|,|b|)^k * |b-a|"""
    a, b = Fraction(d['a']), Fraction(d['b'])
    deg = max([e for _, e in d['terms']] or [0])
    return c * (n + 4) * EPS * (deg + 1) * scale_S(d['terms'], d['a'], d['b']) * abs(b - a) + TINY


def split_result(line):
    p = line.split()
    if not p:
        return ('bad', None)
    if p[0] == 'ok' and len(p) == 2:
        return ('ok', p[1])
    if p[0] == 'err':
        return ('err', ' '.join(p[1:]))
    if p[0] == 'panic' or p[0] == 'abort':
        return ('panic', None)
    return ('bad', line)


def simpson_bound(d):
    """(exact integral, textbook bound |b-a| h^4 max|f''''| / 80 with max|f''''| bounded from above)"""
    a, b = Fraction(d['a']), Fraction(d['b'])
    cs = coef_list(d['terms'])
    I = exact_integral(cs, a, b)
    n = d['n']
    if len(cs) - 1 <= 3:
        return I, Fraction(0)
    f4 = cs
    for _ in range(4):
        f4 = pderiv(f4)
    M4 = abs_upper_bound(f4, min(a, b), max(a, b))
    h = (b - a) / n
    return I, abs(b - a) * h ** 4 * M4 / 80


def judge(case, impl):
    d = parse(case)
    kind, payload = split_result(impl)
    if kind == 'panic':
        return 'panic (the property promises a value or the non-convergence error)'
    if kind == 'bad':
        return 'malformed output ' + impl[:60]
    if d['malformed']:
        return None                  # outside the property: the polynomial is not univariate
    a, b = Fraction(d['a']), Fraction(d['b'])
    cs = coef_list(d['terms'])
    deg = len(cs) - 1
    if d['cmd'] in ('ds', 'di'):
        n = d['n']
        if n == 0:
            return None              # outside the quantifier (n >= 1)
        if kind != 'ok':
            return 'definite_integral returned an error for a univariate polynomial: ' + impl
        if payload == 'nan' or math.isinf(hex2f(payload)):
            return 'definite_integral returned a non-finite value'
        v = Fraction(hex2f(payload))
        env = envelope(d, n)
        if n == 1:
            tz = (b - a) * (pev(cs, a) + pev(cs, b)) / 2
            if abs(v - tz) > env:
                return 'one segment: not the trapezoid rule (b-a)(f(a)+f(b))/2'
            if deg <= 1 and abs(v - exact_integral(cs, a, b)) > env:
                return 'one segment, degree <= 1: not exact'
            return None
        I, bound = simpson_bound(d)
        if abs(v - I) > bound + env:
            if deg <= 3:
                return 'Simpson (n=%d) not exact for degree %d' % (n, deg)
            return 'Simpson (n=%d, degree %d) error exceeds |b-a| h^4 max|f\'\'\'\'| / 80' % (n, deg)
        return None
    # Romberg
    if kind == 'err':
        if payload == 'MaxIterationsReached':
            return None
        return 'romberg_definite returned %s for a univariate polynomial' % payload
    if deg <= 3:
        if payload == 'nan' or math.isinf(hex2f(payload)):
            return 'romberg_definite returned a non-finite value'
        v = Fraction(hex2f(payload))
        n_eff = 2 ** max(0, min(d['cap'] - 1, 24))
        if abs(v - exact_integral(cs, a, b)) > envelope(d, n_eff, c=32):
            return 'Romberg value not exact for degree %d' % deg
    return None


def nontrivial(case, impl):
    d = parse(case)
    if d['malformed'] or d['a'] == d['b']:
        return False
    deg = max([e for c, e in d['terms'] if c != 0.0] or [0])
    if d['cmd'] in ('ds', 'di'):
        return deg >= 1 and d['n'] >= 2
    return deg >= 1 and d['cap'] >= 1


def compare(case, impl, model):
    d = parse(case)
    ki, pi = split_result(impl)
    km, pm = split_result(model)
    if ki != km:
        return False
    if ki != 'ok':
        return impl == model
    if same_float_tok(pi, pm):
        return True
    if d['cmd'] in ('ds', 'rs'):
        return False                # only + - * / and powi: bit for bit
    # IntermediatePolynomial: libm powf against square-and-multiply
    if pi == 'nan' or pm == 'nan':
        return False
    vi, vm = hex2f(pi), hex2f(pm)
    if math.isinf(vi) or math.isinf(vm):
        return False
    n = d['n'] if d['cmd'] == 'di' else 2 ** max(0, min(d['cap'] - 1, 24))
    return abs(Fraction(vi) - Fraction(vm)) <= envelope(d, n, c=16)


# ---- extraction cross-check: the same cases evaluated inside Coq by vm_compute
from tools import xenc
COQ_IMPORTS = 'Base.XEnc Model.Poly Model.Quad'
XCHECK_N = 200
# the driver names only three error kinds; every other one is printed 'FunctionError other' -> -2 on both sides
_X_ENC = ('(fun r => match r with Ok v => [0; float_bits v] | Err EMaxIterationsReached => [1; 14] | Err ETooManyVariables => [1; 8] '
          '| Err EVariableNotFound => [1; 11] | Err _ => [1; -2] | Panic _ => [2] end)')


def _x_ipoly(t):
    terms = []
    for _ in range(t.int()):
        c = t.fl()
        vs = []
        for _ in range(t.int()):
            nm = t.cpstr()
            vs.append('(%s, %s%%float)' % (xenc.cq_str(nm), xenc.coq_float(t.fl())))
        terms.append('{| t_coef := %s%%float; t_vars := [%s] |}' % (xenc.coq_float(c), '; '.join(vs)))
    names = [xenc.cq_str(t.cpstr()) for _ in range(t.int())]
    return '(@i_eval_univariate float FNum {| i_terms := [%s]; i_vars := [%s] |})' % ('; '.join(terms), '; '.join(names))


def _x_spoly(t):
    return '(@s_eval_univariate float FNum {| s_coefs := %s; s_var := Some 120%%N |})' % xenc.cq_floats(t.fvec())


def coq_term(case):
    t = xenc.Toks(case.line)
    cmd = t.word()
    fl = lambda: xenc.coq_float(t.fl()) + '%float'
    if cmd in ('ds', 'di'):
        if not xenc.keep(case, 12):
            return None
        n = t.int()
        a, b = fl(), fl()
        f = _x_spoly(t) if cmd == 'ds' else _x_ipoly(t)
        return '%s (@definite_integral float FNum %s %s %s %d%%N)' % (_X_ENC, f, a, b, n)
    if cmd in ('rs', 'ri'):
        if not xenc.keep(case, 16):
            return None
        cap = t.int()
        m = case.meta if isinstance(case.meta, dict) else None
        levels = min(cap, (m['iters'] or 0) + 1) if m and m.get('sim') == 'ok' else cap
        if levels > 9:                       # 2^levels integrand evaluations: keep vm_compute light
            return None
        tol, a, b = fl(), fl(), fl()
        f = _x_spoly(t) if cmd == 'rs' else _x_ipoly(t)
        return '%s (@romberg float FNum %s %s %s %d%%N %s)' % (_X_ENC, f, a, b, cap, tol)
    return None


def encode_result(case, model_line):
    t = model_line.split()
    if t[0] == 'ok':
        return [0, xenc.float_tok_bits(t[1])]
    if t[0] == 'panic':
        return [2]
    assert t[0] == 'err', model_line
    return [1, {'MaxIterationsReached': 14, 'FunctionError TooManyVariables': 8,
                'FunctionError VariableNotFound': 11}.get(' '.join(t[1:]), -2)]
