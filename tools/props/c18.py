# C18 — descriptive statistics: generator, exact-rational oracle, comparison.
from fractions import Fraction
import math
from tools.lib import Case, f2hex, hex2f, same_float_tok

ID = 'C18'
EPS = Fraction(1, 2 ** 52)
RULE = ('samples of length 0..200 by class (empty, singleton, small integers, uniform +-1e6, clustered far from 0, '
        'all-equal, positive for the geometric mean, long samples near 1e6 / 1e-6, mixed magnitudes) x {mean, geom, sd population, sd sample}; '
        'distinct = distinct case line; non-trivial = sample has >= 2 elements that are not all equal')
TRUSTED = ['extraction of the float instance (ExtrOcamlBasic, ExtrOCamlFloats, ExtrOCamlInt63) and ocaml/driver.ml',
           'Rust harness harness/src/c18.rs', 'exact-rational oracle tools/props/c18.py',
           'geometric mean: libm exp/ln are not modelled for floats; judged by the exact oracle (g^n against the exact product)']
ASSUMPTIONS = ['theorems are about the R instance (exact arithmetic); rounding envelopes are measured, not proved',
               'f64::powi(x,2) == x*x (compiler-rt square-and-multiply), measured by the bit-for-bit comparison']


def samples(rng, tier):
    n_rand = 120 if tier == 'quick' else 1500
    out = []
    out.append(('empty', []))
    for v in (0.0, 1.0, -3.5, 1e6, 5e-324):
        out.append(('singleton', [v]))
    for n in (2, 3, 5, 8):
        out.append(('allequal', [rng.choice([1.0, 0.1, 7.25, 1e6, 123456.789])] * n))
    # long samples at the ends of the value range: the running product of the geometric mean leaves f64's range
    for n in (30, 52, 53, 60, 64, 65, 100, 200):
        out.append(('bigpositive', [rng.uniform(1e5, 1e6) for _ in range(n)]))
        out.append(('smallpositive', [rng.uniform(1e-6, 1e-5) for _ in range(n)]))
        out.append(('bigpositive', [1e6] * n))
    for _ in range(n_rand):
        cls = rng.choice(['smallint', 'uniform', 'clustered', 'positive', 'mixed', 'allequal', 'tiny'])
        n = rng.choice([1, 2, 3, 4, 5, 7, 10, 20, 50, 100, 200, rng.randint(1, 200)])
        if cls == 'smallint':
            l = [float(rng.randint(-9, 9)) for _ in range(n)]
        elif cls == 'uniform':
            l = [rng.uniform(-1e6, 1e6) for _ in range(n)]
        elif cls == 'clustered':
            c = rng.choice([1e6, -1e6, 12345.678, 999999.0]) * rng.random()
            s = rng.choice([1e-3, 1.0, 1e-6])
            l = [c + rng.gauss(0, s) for _ in range(n)]
            l = [max(-1e6, min(1e6, x)) for x in l]
        elif cls == 'positive':
            l = [math.exp(rng.uniform(math.log(1e-3), math.log(1e3))) for _ in range(n)]
        elif cls == 'mixed':
            l = [rng.choice([-1, 1]) * 10 ** rng.uniform(-6, 6) for _ in range(n)]
        elif cls == 'tiny':
            l = [rng.choice([-1, 1]) * 10 ** rng.uniform(-300, -290) for _ in range(n)]
        else:
            l = [rng.uniform(-1e6, 1e6)] * n
        out.append((cls, l))
    return out


def gen(rng, tier):
    for cls, l in samples(rng, tier):
        body = '%d %s' % (len(l), ' '.join(f2hex(x) for x in l))
        body = body.strip()
        yield Case('mean ' + body, cls, None)
        yield Case('sd 0 ' + body, cls, None)
        yield Case('sd 1 ' + body, cls, None)
        if all(x > 0 for x in l):
            yield Case('geom ' + body, cls, None)


def parse(case):
    t = case.line.split()
    cmd = t[0]
    k = 1
    sample = None
    if cmd == 'sd':
        sample = t[1] == '1'
        k = 2
    n = int(t[k])
    xs = [hex2f(h) for h in t[k + 1:k + 1 + n]]
    return cmd, sample, xs


def describe(case):
    cmd, sample, xs = parse(case)
    return {'op': cmd, 'sample_form': sample, 'n': len(xs), 'first_values': xs[:4]}


def nontrivial(case, impl):
    _, _, xs = parse(case)
    return len(xs) >= 2 and len(set(xs)) > 1


def isqrt_bounds(q):
    """rational lower/upper bounds of sqrt(q), q >= 0 Fraction, relative 2^-80"""
    if q == 0:
        return Fraction(0), Fraction(0)
    k = 200
    num = q.numerator * (1 << (2 * k)) // q.denominator
    r = math.isqrt(num)
    return Fraction(r, 1 << k), Fraction(r + 1, 1 << k)


def judge(case, impl):
    cmd, sample, xs = parse(case)
    n = len(xs)
    if impl == 'panic' or impl.startswith('abort'):
        return 'panic instead of a value'
    if not (impl == 'nan' or len(impl) == 16):
        return 'malformed output ' + impl
    F = [Fraction(x) for x in xs]
    if cmd == 'mean':
        if n == 0:
            return None if impl == 'nan' else 'mean of the empty sample is not NaN'
        if impl == 'nan':
            return 'mean of a non-empty finite sample is NaN'
        v = hex2f(impl)
        if math.isinf(v):
            return 'mean is infinite'
        exact = sum(F) / n
        env = (n + 2) * EPS * sum(abs(f) for f in F) / n + Fraction(1, 2 ** 1070)
        if abs(Fraction(v) - exact) > env:
            return 'mean differs from sum/n beyond the rounding envelope'
        lo, hi = min(F), max(F)
        if Fraction(v) < lo - env or Fraction(v) > hi + env:
            return 'mean outside [min, max]'
        return None
    if cmd == 'sd':
        d = n - 1 if sample else n
        if d <= 0:
            return None if impl == 'nan' else 'undefined standard deviation is not NaN'
        if impl == 'nan':
            return 'standard deviation of a defined case is NaN'
        v = hex2f(impl)
        if math.isinf(v):
            return 'standard deviation is infinite'
        if v < 0:
            return 'standard deviation is negative'
        mu = sum(F) / n
        var = sum((f - mu) ** 2 for f in F) / d
        lo, hi = isqrt_bounds(var)
        dmu = (n + 2) * EPS * max(abs(f) for f in F)
        shift = 2 * dmu * isqrt_bounds(Fraction(n, d))[1] + 2 * EPS * max(abs(f) for f in F)
        tol = hi * (2 * n + 12) * EPS + shift + Fraction(1, 2 ** 530)
        fv = Fraction(v)
        if fv < lo - tol or fv > hi + tol:
            return 'standard deviation differs from its definition beyond the rounding envelope'
        return None
    if cmd == 'geom':
        if n == 0:
            return None if impl == 'nan' else 'geometric mean of the empty sample is not NaN'
        if impl == 'nan':
            return 'geometric mean of positive data is NaN'
        v = hex2f(impl)
        P = Fraction(1)
        for f in F:
            P *= f
        if math.isinf(v) or v <= 0:
            return 'geometric mean of positive data is not a positive finite number'
        g = Fraction(v) ** n
        rel = abs(g / P - 1)
        lnmax = max(abs(math.log(x)) for x in xs)          # conditioning of exp(mean(ln x))
        relg = 2 * (n + 4) * int(lnmax + 2) * EPS          # relative error budget of g itself
        if rel > (n + 1) * relg:
            return 'geometric mean ^ n differs from the product beyond the rounding envelope'
        lo, hi = min(F), max(F)
        slack = relg
        if Fraction(v) < lo * (1 - slack) or Fraction(v) > hi * (1 + slack):
            return 'geometric mean outside [min, max]'
        return None
    return 'unknown command'


def compare(case, impl, model):
    cmd, _, xs = parse(case)
    if cmd == 'geom':
        # libm exp/ln are not modelled for floats: the exact oracle decides alone; only the NaN guard is compared
        return (impl == 'nan') == (len(xs) == 0)
    return same_float_tok(impl, model)


# ---- extraction cross-check: the same cases evaluated inside Coq by vm_compute
from tools.lib import coq_float, float_tok_bits
COQ_IMPORTS = 'Model.Stats'


def coq_term(case):
    cmd, sample, xs = parse(case)
    if cmd == 'geom':
        return None
    l = '[%s]%%float' % '; '.join(coq_float(x) for x in xs)
    if cmd == 'mean':
        return '[opt_float_bits (@arith_mean float FNum %s)]' % l
    return '[opt_float_bits (@std_dev float FNum %s %s)]' % (l, 'true' if sample else 'false')


def encode_result(case, model_line):
    return [float_tok_bits(model_line)]
