# C15 — regressors: generator, exact-rational oracle, comparison.
from fractions import Fraction
import math
from tools.lib import Case, f2hex, hex2f, same_float_tok

ID = 'C15'
EPS = Fraction(1, 2 ** 52)
COND_MAX = 10 ** 10
RULE = ('data sets of 3..60 points by abscissa class (grid, uniform, clustered, shifted to [100,110], negative, repeated '
        'abscissae, small integers) x responses = polynomial of degree 0..3 + noise of level 0..1 x '
        '{least squares, polynomial fit of order 0..6, gradient descent with steps 10..1e5 and step size in (0, 1.9/L)}; every '
        'fit case also evaluates predict at a fresh point and the accessors; plus predict on random coefficient lists and a '
        'malformed stream (empty, mismatched lengths, too few points, all abscissae equal) that is compared with the model only. '
        'distinct = distinct case line; non-trivial = more distinct abscissae than coefficients')
TRUSTED = ['extraction of the float instance (ExtrOcamlBasic, ExtrOCamlFloats, ExtrOCamlInt63) and ocaml/c15.ml',
           'Rust harness harness/src/bin/c15.rs (also asserts that intercept/slope/slopes are views of the coefficients)',
           'exact-rational oracle tools/props/c15.py: exact normal-equation residuals, exact statistics, exact optimum and contraction factor for gradient descent']
ASSUMPTIONS = ['theorems are about the R instance (exact arithmetic); rounding envelopes are measured by the oracle, not proved',
               'f64::powi(x,k) == compiler-rt square-and-multiply (npowi), measured by the bit-for-bit comparison',
               '"moment matrix condition" is read as the inf-norm condition number of the moment matrix after symmetric diagonal '
               'scaling D^-1/2 M D^-1/2 (D = diag M), computed exactly; the normal-equation residual of returned coefficients '
               'must be below 8*(N+m+1)*eps*max(1,cond)*(|M||c| + |v|) componentwise']
PROFILES = {'quick': ['debug'], 'thorough': ['debug', 'release']}
POLY_TOL = Fraction(1, 10 ** 5)


# ----------------------------------------------------------------- wire
def vec_line(v):
    return ('%d %s' % (len(v), ' '.join(f2hex(x) for x in v))).strip()


def parse(case):
    t = case.line.split()
    cmd = t[0]
    d = {'cmd': cmd}
    k = 1
    if cmd == 'predict':
        n = int(t[k]); cs = [hex2f(x) for x in t[k + 1:k + 1 + n]]; k += 1 + n
        d['cs'] = cs; d['x0'] = hex2f(t[k])
        return d
    if cmd == 'polytol':
        d['tol'] = hex2f(t[k]); k += 1
    if cmd in ('poly', 'polytol'):
        d['order'] = int(t[k]); k += 1
    if cmd == 'gd':
        d['steps'] = int(t[k]); d['alpha'] = hex2f(t[k + 1]); k += 2
    d['x0'] = hex2f(t[k]); k += 1
    n = int(t[k]); d['x'] = [hex2f(v) for v in t[k + 1:k + 1 + n]]; k += 1 + n
    n = int(t[k]); d['y'] = [hex2f(v) for v in t[k + 1:k + 1 + n]]
    return d


def parse_out(s):
    t = s.split()
    if t and t[0] == 'ok':
        try:
            n = int(t[1])
            vals = [hex2f(v) for v in t[2:]]
            if len(vals) != n + 3:
                return 'other', s
            return 'ok', (vals[:n], vals[n], vals[n + 1], vals[n + 2])
        except Exception:
            return 'other', s
    if s == 'panic':
        return 'panic', None
    return 'other', s


# ----------------------------------------------------------------- generator
def gen_x(rng, n, cls):
    if cls == 'grid':
        a = rng.randint(-6, 3)
        return [float(a + i) for i in range(n)]
    if cls == 'uniform':
        return [rng.uniform(-3, 3) for _ in range(n)]
    if cls == 'clustered':
        c = rng.uniform(-2, 2)
        return [c + rng.gauss(0, 0.05) for _ in range(n)]
    if cls == 'shifted':
        if rng.random() < 0.4:
            a = 100
            return [float(a + (i % 12)) + (0.0 if i < 12 else rng.random()) for i in range(n)]
        return [rng.uniform(100, 110) for _ in range(n)]
    if cls == 'negative':
        return [-rng.uniform(0.5, 8) for _ in range(n)]
    if cls == 'repeated':
        k = rng.randint(2, max(2, min(8, n - 1)))
        base = [rng.uniform(-4, 4) for _ in range(k)]
        xs = base + [rng.choice(base) for _ in range(n - k)]
        rng.shuffle(xs)
        return xs
    if cls == 'smallint':
        return [float(rng.randint(-5, 5)) for _ in range(n)]
    if cls == 'tinyscale':
        # distinct abscissae on a very fine grid near 0 (well conditioned after scaling, tiny raw moments)
        s = rng.choice([1e-4, 2e-4, 1e-3, 1e-2])
        a = rng.randint(-3, 0)
        return [s * (a + i) for i in range(n)]
    if cls == 'zerosum':
        # abscissae that sum to exactly 0.0 without being symmetric about 0 (small integers and halves: exact)
        while True:
            xs = [float(rng.randint(-8, 8)) / rng.choice([1, 2]) for _ in range(n - 1)]
            last = -sum(xs)
            xs.append(last)
            if sum(xs) == 0.0 and sorted(xs) != sorted(-x for x in xs) and len(set(xs)) >= min(n, 4):
                rng.shuffle(xs)
                return xs
    if cls == 'largescale':
        s = rng.choice([1e2, 1e3])
        return [s * rng.uniform(-3, 3) for _ in range(n)]
    raise ValueError(cls)


def gen_y(rng, xs):
    deg = rng.randint(0, 3)
    cs = [rng.choice([rng.uniform(-3, 3), float(rng.randint(-3, 3))]) for _ in range(deg + 1)]
    noise = rng.choice([0.0, 0.0, 1e-6, 1e-3, 0.1, 1.0])
    ys = []
    for x in xs:
        v = sum(c * x ** k for k, c in enumerate(cs))
        ys.append(v + (rng.gauss(0, noise) if noise else 0.0))
    return ys


XCLASSES = ['grid', 'uniform', 'clustered', 'shifted', 'negative', 'repeated', 'smallint', 'tinyscale', 'largescale', 'zerosum']


def data(rng):
    n = rng.choice([3, 4, 5, 6, 8, 10, 12, 15, 20, 30, 45, 60, rng.randint(3, 60)])
    cls = rng.choice(XCLASSES)
    xs = gen_x(rng, n, cls)
    return cls, xs, gen_y(rng, xs)


def hmat_exact(xs):
    n = len(xs)
    F = [Fraction(x) for x in xs]
    return Fraction(1), sum(F) / n, sum(f * f for f in F) / n     # H = [[1, sx/n], [sx/n, sxx/n]]


def lam_max_up(xs):
    h11, h12, h22 = hmat_exact(xs)
    tr = h11 + h22
    disc = (h11 - h22) ** 2 + 4 * h12 * h12
    return (tr + sqrt_bounds(disc)[1]) / 2


def gen(rng, tier):
    quick = tier == 'quick'
    n_fit = 260 if quick else 5000
    x0s = lambda: rng.choice([0.0, 1.0, -1.5, 2.25, 104.5, rng.uniform(-10, 10)])
    # the documented witness of the pivot-tolerance problem
    xs = [float(v) for v in range(100, 112)]
    ys = [3.0 * v * v + 2.0 * v + 1.0 for v in xs]
    yield Case('poly 2 %s %s %s' % (f2hex(1.0), vec_line(xs), vec_line(ys)), 'poly:shifted', None)
    yield Case('ls %s %s %s' % (f2hex(1.0), vec_line(xs), vec_line(ys)), 'ls:shifted', None)
    for _ in range(n_fit):
        cls, xs, ys = data(rng)
        body = '%s %s %s' % (f2hex(x0s()), vec_line(xs), vec_line(ys))
        yield Case('ls ' + body, 'ls:' + cls, None)
        for order in sorted(set([rng.randint(0, 2), rng.randint(0, 6)])):
            yield Case('poly %d %s' % (order, body), 'poly:' + cls, None)
    # order 1 against the line fit on the same data, and consecutive orders on the same data
    for _ in range(60 if quick else 1000):
        cls, xs, ys = data(rng)
        body = '%s %s %s' % (f2hex(x0s()), vec_line(xs), vec_line(ys))
        yield Case('ls ' + body, 'ls:' + cls, None)
        for order in range(0, rng.randint(1, 4) + 1):
            yield Case('poly %d %s' % (order, body), 'poly:' + cls, None)
    # gradient descent
    n_gd = 120 if quick else 1500
    for i in range(n_gd):
        cls, xs, ys = data(rng)
        if i % 40 == 0:
            steps = 100000
        else:
            steps = rng.choice([10, 30, 100, 300, 1000, 3000, 10000])
        L = float(lam_max_up(xs))
        alpha = rng.uniform(0.05, 1.9) / L
        yield Case('gd %d %s %s %s %s' % (steps, f2hex(alpha), f2hex(x0s()), vec_line(xs), vec_line(ys)), 'gd:' + cls, None)
    # predict alone
    for _ in range(150 if quick else 3000):
        k = rng.randint(1, 8)
        cs = [rng.choice([rng.uniform(-5, 5), float(rng.randint(-3, 3)), 0.0]) for _ in range(k)]
        yield Case('predict %s %s' % (vec_line(cs), f2hex(rng.choice([0.0, -0.0, 1.0, -2.0, rng.uniform(-12, 12), 105.25]))), 'predict', None)
    # malformed / outside the property's domain: correspondence only
    one = f2hex(1.0)
    for xs, ys in ([], []), ([1.0], [2.0]), ([1.0, 2.0], [1.0, 3.0]), ([1.0, 2.0, 3.0], [1.0, 2.0]), ([1.0, 2.0], [1.0, 2.0, 3.0]), \
            ([2.0, 2.0, 2.0, 2.0], [1.0, 2.0, 3.0, 4.0]), ([1.0, 2.0, 3.0], [5.0, 5.0, 5.0]):
        body = '%s %s %s' % (one, vec_line(xs), vec_line(ys))
        yield Case('ls ' + body, 'malformed', None)
        yield Case('poly 1 ' + body, 'malformed', None)
        yield Case('poly 0 ' + body, 'malformed', None)
        yield Case('gd 10 %s %s' % (f2hex(0.01), body), 'malformed', None)


# ----------------------------------------------------------------- exact helpers
def sqrt_bounds(q):
    """rational lower/upper bounds of sqrt(q), q >= 0, relative 2^-100"""
    if q <= 0:
        return Fraction(0), Fraction(0)
    k = 120
    while q.numerator * (1 << (2 * k)) // q.denominator < (1 << 200):
        k += 60
    num = q.numerator * (1 << (2 * k)) // q.denominator
    r = math.isqrt(num)
    return Fraction(r, 1 << k), Fraction(r + 1, 1 << k)


def exact_inverse(F):
    n = len(F)
    M = [list(F[i]) + [Fraction(int(i == j)) for j in range(n)] for i in range(n)]
    for c in range(n):
        p = next((i for i in range(c, n) if M[i][c] != 0), None)
        if p is None:
            return None
        M[c], M[p] = M[p], M[c]
        inv = 1 / M[c][c]
        M[c] = [x * inv for x in M[c]]
        for i in range(n):
            if i != c and M[i][c] != 0:
                f = M[i][c]
                M[i] = [x - f * y for x, y in zip(M[i], M[c])]
    return [r[n:] for r in M]


def moments(X, m):
    S = [sum(x ** k for x in X) for k in range(2 * m + 1)]
    return [[S[i + j] for j in range(m + 1)] for i in range(m + 1)]


_cond_cache = {}


def cond_sym(xs, m):
    """inf-norm condition number of D^-1/2 M D^-1/2, M the exact moment matrix of order m (None if singular)"""
    key = (tuple(xs), m)
    if key in _cond_cache:
        return _cond_cache[key]
    X = [Fraction(x) for x in xs]
    M = moments(X, m)
    # rational square roots of the diagonal (relative 2^-100: the scaling need not be exact)
    s = [sqrt_bounds(M[i][i])[1] for i in range(m + 1)]
    if any(v == 0 for v in s):
        _cond_cache[key] = None
        return None
    B = [[M[i][j] / (s[i] * s[j]) for j in range(m + 1)] for i in range(m + 1)]
    Bi = exact_inverse(B)
    if Bi is None:
        r = None
    else:
        r = max(sum(abs(v) for v in row) for row in B) * max(sum(abs(v) for v in row) for row in Bi)
        # "moment matrix condition up to about 1e10" is read in the way that demands LEAST of the code: the data
        # set is in the property's domain only if the RAW moment matrix, too, has condition <= 1e10 (the raw
        # condition is never smaller than the diagonally scaled one).  Outside: correspondence only.
        Mi = exact_inverse(M)
        raw = max(sum(abs(v) for v in row) for row in M) * max(sum(abs(v) for v in row) for row in Mi)
        if raw > COND_MAX:
            r = None
    _cond_cache[key] = r
    return r


def exact_min_scaled_pivot(xs, m):
    """the elimination of gaussian_elim.rs (scaled partial pivoting) in exact arithmetic on the exact moment
    matrix: the smallest scaled pivot |a_kk / s_k| it meets (0 if singular)"""
    X = [Fraction(x) for x in xs]
    A = moments(X, m)
    n = m + 1
    s = [max(abs(v) for v in r) for r in A]
    if any(v == 0 for v in s):
        return Fraction(0)
    best = None
    for k in range(n):
        p = k
        big = abs(A[k][k] / s[k])
        for i in range(k + 1, n):
            t = abs(A[i][k] / s[i])
            if t > big:
                big, p = t, i
        if p != k:
            A[p], A[k] = A[k], A[p]
            s[p], s[k] = s[k], s[p]
        piv = abs(A[k][k] / s[k])
        best = piv if best is None else min(best, piv)
        if piv == 0:
            return Fraction(0)
        for i in range(k + 1, n):
            f = A[i][k] / A[k][k]
            for j in range(k + 1, n):
                A[i][j] -= f * A[k][j]
    return best


def in_domain(d, ncoef):
    xs, ys = d['x'], d['y']
    if len(xs) != len(ys) or len(xs) < 3:
        return False
    return len(set(xs)) > ncoef


def finite(v):
    return not (math.isinf(v) or math.isnan(v))


def peval(cs, x):
    return sum(c * x ** k for k, c in enumerate(cs))


def check_normal(d, cs, m, what):
    """normal-equation residuals of the returned coefficients, scaled by the condition estimate"""
    X = [Fraction(x) for x in d['x']]
    Y = [Fraction(y) for y in d['y']]
    C = [Fraction(c) for c in cs]
    N = len(X)
    cond = cond_sym(d['x'], m)
    if cond is None or cond > COND_MAX:
        return None
    eta = 8 * (N + m + 1) * EPS * max(1, cond)
    R = [y - peval(C, x) for x, y in zip(X, Y)]
    for j in range(m + 1):
        g = sum(r * x ** j for r, x in zip(R, X))
        scale = sum(abs(C[k]) * sum(abs(x) ** (j + k) for x in X) for k in range(m + 1)) + sum(abs(y) * abs(x) ** j for x, y in zip(X, Y))
        if abs(g) > eta * scale + Fraction(1, 2 ** 900):
            return '%s: residuals are not orthogonal to x^%d (normal equation %d violated beyond cond*n*eps; cond=%.3g)' % (what, j, j, float(cond))
    return None


def check_stats(d, cs, se, r2, what):
    X = [Fraction(x) for x in d['x']]
    Y = [Fraction(y) for y in d['y']]
    C = [Fraction(c) for c in cs]
    N = len(Y)
    m = len(C) - 1
    ymean = sum(Y) / N
    ymax = max(abs(y) for y in Y)
    P = [sum(abs(C[k]) * abs(x) ** k for k in range(m + 1)) for x in X]
    R = [y - peval(C, x) for x, y in zip(X, Y)]
    sse = sum(r * r for r in R)
    sst = sum((y - ymean) ** 2 for y in Y)
    e = [(2 * m + 6) * EPS * (p + abs(y)) for p, y in zip(P, Y)]
    E_sse = sum(2 * abs(r) * ei + ei * ei for r, ei in zip(R, e)) + (N + 4) * EPS * sse
    em = (N + 4) * EPS * ymax
    E_sst = sum(2 * abs(y - ymean) * em + em * em for y in Y) + (N + 4) * EPS * sst
    tiny = Fraction(1, 2 ** 1000)
    # std_err = sqrt(SSE / (N - 2))
    if not finite(se):
        return '%s: std_err is not finite' % what
    lo = sqrt_bounds(max(Fraction(0), sse - E_sse) / (N - 2))[0] * (1 - 8 * EPS)
    hi = sqrt_bounds((sse + E_sse) / (N - 2))[1] * (1 + 8 * EPS) + tiny
    if not (lo <= Fraction(se) <= hi):
        return '%s: std_err is not sqrt(SSE/(n-2)) of the returned coefficients' % what
    # r2 = (SST - SSE) / SST  (undefined when all responses are equal)
    if sst > E_sst * 4 and sst > 0:
        if not finite(r2):
            return '%s: r2 is not finite' % what
        exact = (sst - sse) / sst
        env = (E_sst + E_sse) / (sst - E_sst) + abs(exact) * E_sst / (sst - E_sst) + 8 * EPS * (sst + sse) / sst + tiny
        if abs(Fraction(r2) - exact) > env:
            return '%s: r2 is not (SST-SSE)/SST of the returned coefficients' % what
    return None


def check_predict(cs, x0, p, what):
    if not all(finite(c) for c in cs) or not finite(x0):
        return None
    C = [Fraction(c) for c in cs]
    x = Fraction(x0)
    exact = peval(C, x)
    env = 2 * (2 * len(C) + 4) * EPS * sum(abs(c) * abs(x) ** k for k, c in enumerate(C)) + Fraction(1, 2 ** 1000)
    if not finite(p) or abs(Fraction(p) - exact) > env:
        return '%s: predict(x) is not the value of the coefficient polynomial' % what
    return None


def judge(case, impl):
    d = parse(case)
    cmd = d['cmd']
    kind, val = parse_out(impl)
    if impl.startswith('accessor-mismatch'):
        return 'intercept/slope/slopes are not views of the coefficient vector'
    if cmd == 'predict':
        if not (impl == 'nan' or len(impl) == 16):
            return 'malformed output ' + impl[:60]
        return check_predict(d['cs'], d['x0'], hex2f(impl), 'predict')
    if cmd == 'polytol':
        return None
    ncoef = d['order'] + 1 if cmd == 'poly' else 2
    if not in_domain(d, ncoef):
        return None                          # outside the property's quantifier: correspondence only
    if cmd == 'poly':
        cond = cond_sym(d['x'], d['order'])
        if cond is None or cond > COND_MAX:
            return None
        if kind == 'panic':
            return ('polynomial fit of order %d panics (unwrap of the solver error) on a full-rank moment matrix '
                    'with condition %.3g <= 1e10' % (d['order'], float(cond)))
    if kind != 'ok':
        return 'fit did not return a model: ' + impl[:60]
    cs, se, r2, p = val
    if len(cs) != ncoef:
        return 'model has %d coefficients, expected %d' % (len(cs), ncoef)
    if not all(finite(c) for c in cs):
        return 'coefficients are not finite'
    what = {'ls': 'least squares', 'poly': 'polynomial fit', 'gd': 'gradient descent'}[cmd]
    v = check_stats(d, cs, se, r2, what) or check_predict(cs, d['x0'], p, what)
    if v:
        return v
    if cmd in ('ls', 'poly'):
        return check_normal(d, cs, ncoef - 1, what)
    # gradient descent: within rho^k |e0| (+ rounding) of the exact optimum
    X = [Fraction(x) for x in d['x']]
    Y = [Fraction(y) for y in d['y']]
    N = len(X)
    alpha = Fraction(d['alpha'])
    h11, h12, h22 = hmat_exact(d['x'])
    tr = h11 + h22
    disc = (h11 - h22) ** 2 + 4 * h12 * h12
    sl, su = sqrt_bounds(disc)
    lmax_up, lmin_lo = (tr + su) / 2, (tr - su) / 2
    if alpha <= 0 or alpha * lmax_up >= 2:
        return None                          # not a stable step
    rho = max(abs(1 - alpha * lmin_lo), abs(1 - alpha * lmax_up), abs(1 - alpha * (tr + sl) / 2), abs(1 - alpha * (tr - sl) / 2))
    sx, sy = sum(X), sum(Y)
    sxx, sxy = sum(x * x for x in X), sum(x * y for x, y in zip(X, Y))
    det = N * sxx - sx * sx
    b = (N * sxy - sx * sy) / det
    a = (sy - b * sx) / N
    e0 = sqrt_bounds((sy / N - a) ** 2 + b * b)[1]
    k = d['steps']
    rk = min(1.0, float(rho) ** k * (1 + 1e-6) + 1e-300) if rho < 1 else 1.0
    xmax = max(abs(x) for x in X)
    ymax = max(abs(y) for y in Y)
    wscale = max(abs(a), abs(Fraction(cs[0])), abs(sy / N)) + max(abs(b), abs(Fraction(cs[1]))) * xmax + ymax
    delta = 8 * (N + 6) * EPS * wscale * (1 + alpha * max(1, xmax)) * max(1, xmax)
    acc = min(Fraction(k), 1 / (1 - rho)) if rho < 1 else Fraction(k)
    bound = Fraction(rk) * e0 + acc * delta + 16 * EPS * (abs(a) + abs(b))
    err2 = (Fraction(cs[0]) - a) ** 2 + (Fraction(cs[1]) - b) ** 2
    if err2 > bound * bound:
        return 'gradient descent is outside its contraction bound rho^k*|e0| of the least-squares optimum'
    return None


def known(case, impl, clause):
    """F14: PolynomialRegression::fit passes the pivot tolerance 1e-5 to gaussian_elimination; a full-rank moment
    matrix whose exact scaled pivot falls below 1e-5 is refused and `unwrap` panics."""
    d = parse(case)
    if d['cmd'] != 'poly' or impl != 'panic' or 'panics (unwrap of the solver error)' not in clause:
        return None
    piv = exact_min_scaled_pivot(d['x'], d['order'])
    if 0 < piv < POLY_TOL * Fraction(1001, 1000):
        return 'F14 polynomial fit refused by the pivot tolerance 1e-5 on a full-rank moment matrix (panic on unwrap)'
    return None


def compare(case, impl, model):
    ki, _ = parse_out(impl)
    km, _ = parse_out(model)
    if ki == 'ok' and km == 'ok':
        a, b = impl.split(), model.split()
        return len(a) == len(b) and a[1] == b[1] and all(same_float_tok(x, y) for x, y in zip(a[2:], b[2:]))
    if parse(case)['cmd'] == 'predict':
        return same_float_tok(impl, model)
    return impl == model


def nontrivial(case, impl):
    d = parse(case)
    if d['cmd'] == 'predict':
        return len(d['cs']) >= 2
    if d['cmd'] == 'polytol':
        return False
    return in_domain(d, d['order'] + 1 if d['cmd'] == 'poly' else 2)


def describe(case):
    d = parse(case)
    out = {'op': d['cmd'], 'class': case.cls}
    for k in ('order', 'steps', 'alpha', 'x0'):
        if k in d:
            out[k] = d[k]
    if 'x' in d:
        out['n'] = len(d['x']); out['x_first'] = d['x'][:4]; out['y_first'] = d['y'][:4]
    if 'cs' in d:
        out['coefficients'] = d['cs']
    return out


# ---- extraction cross-check: the same cases evaluated inside Coq by vm_compute
from tools import xenc
COQ_IMPORTS = 'Base.XEnc Base.Mat Model.Subst Model.Gauss Model.Regress'
XCHECK_N = 200


def coq_term(case):
    t = xenc.Toks(case.line)
    cmd = t.word()
    F = lambda x: xenc.coq_float(x) + '%float'
    if cmd == 'predict':
        if not xenc.keep(case, 6):
            return None
        cs = t.fvec()
        return '[float_bits (@predict_coefs float FNum %s %s)]' % (xenc.cq_floats(cs), F(t.fl()))
    if not xenc.keep(case, 8 if cmd in ('ls', 'poly') else 3):
        return None
    tol = order = steps = alpha = None
    if cmd == 'polytol':
        tol = t.fl()
    if cmd in ('poly', 'polytol'):
        order = t.int()
    if cmd == 'gd':
        steps = t.int()
        alpha = t.fl()
    x0 = t.fl()
    xs = t.fvec()
    ys = t.fvec()
    # ok n coefs std_err r2 prediction(x0); the driver prints a bare 'err' for every error kind
    enc = ('(fun m => enc_floats (coefs m) ++ [float_bits (std_err m); float_bits (r2 m); '
           'float_bits (@predict_coefs float FNum (coefs m) %s)])' % F(x0))
    encr = '(fun r => match r with Ok m => 0 :: %s m | Err _ => [1] | Panic _ => [2] end)' % enc
    X, Y = xenc.cq_floats(xs), xenc.cq_floats(ys)
    if cmd == 'ls':
        return '0 :: %s (@ls_fit float FNum %s %s)' % (enc, X, Y)
    if cmd == 'poly':
        return '%s (@poly_fit float FNum %d%%nat %s %s)' % (encr, order, X, Y)
    if cmd == 'polytol':
        return '%s (@poly_fit_tol float FNum %s %d%%nat %s %s)' % (encr, F(tol), order, X, Y)
    if cmd == 'gd':
        if steps * max(1, len(xs)) > 40000:       # keep vm_compute light
            return None
        return '0 :: %s (@gd_fit float FNum %s %s %s %s)' % (enc, xenc.cq_nat(steps), F(alpha), X, Y)
    return None


def encode_result(case, model_line):
    t = model_line.split()
    if case.line.startswith('predict '):
        return [xenc.float_tok_bits(t[0])]
    if t[0] == 'ok':
        return [0, int(t[1])] + [xenc.float_tok_bits(x) for x in t[2:]]
    return [{'err': 1, 'panic': 2}.get(t[0], -99)]
