# C14 — Hessenberg reduction: generator, exact oracle (integer arithmetic on the returned floats), comparison.
from fractions import Fraction
import math
from tools.lib import Case, f2hex, hex2f, is_hexfloat, same_float_tok

ID = 'C14'
EPS = Fraction(1, 2 ** 52)
CONST = 16
RULE = ('matrices of size 0..10 by class (dense uniform, small integers, sparse with exact zeros, already-Hessenberg '
        'leading columns, zero sub-columns (skip branch), symmetric, tridiagonal, scaled by 2^-40..2^40, negative / '
        'zero / positive leading sub-column entry, identity-like, rank one) plus non-square shapes h x w, h != w, '
        'including empty sides; distinct = distinct case line; non-trivial = square of size >= 3 with a non-zero '
        'entry below the first sub-diagonal (at least one reflector is applied)')
TRUSTED = ['extraction of the float instance (ExtrOcamlBasic, ExtrOCamlFloats, ExtrOCamlInt63) and ocaml/c14.ml',
           'Rust harness harness/src/bin/c14.rs',
           'exact oracle tools/props/c14.py (integer arithmetic on the dyadic values of the returned floats)']
ASSUMPTIONS = ['theorems are about the R instance (exact arithmetic, Reals sqrt); the c*n^2*eps*||A|| rounding '
               'envelopes are measured by the oracle, not proved',
               'inputs are finite and far from overflow/underflow (|a_ij| in 2^-60..2^60 or exactly 0)']


# ------------------------------------------------------------------ generator
def rnd_entry(rng):
    return rng.uniform(-10.0, 10.0)


def make_matrix(rng, cls, n):
    R = range(n)
    if cls == 'dense':
        return [[rnd_entry(rng) for _ in R] for _ in R]
    if cls == 'smallint':
        return [[float(rng.randint(-5, 5)) for _ in R] for _ in R]
    if cls == 'sparse':
        p = rng.choice([0.3, 0.5, 0.8])
        return [[(rnd_entry(rng) if rng.random() > p else 0.0) for _ in R] for _ in R]
    if cls == 'hessenberg_cols':
        # the first c columns are already reduced (exact zeros below the sub-diagonal)
        c = rng.randint(1, max(1, n))
        m = [[rnd_entry(rng) for _ in R] for _ in R]
        for j in range(min(c, n)):
            for i in range(j + 2, n):
                m[i][j] = 0.0
        return m
    if cls == 'zero_subcol':
        # some columns are zero from the sub-diagonal downwards: norm 0 => the iteration is skipped
        m = [[rnd_entry(rng) for _ in R] for _ in R]
        for j in R:
            if rng.random() < 0.5:
                for i in range(j + 1, n):
                    m[i][j] = 0.0
        if n >= 3 and rng.random() < 0.5:
            for i in range(1, n):
                m[i][0] = 0.0
        return m
    if cls == 'symmetric':
        m = [[0.0] * n for _ in R]
        for i in R:
            for j in range(i, n):
                m[i][j] = m[j][i] = rnd_entry(rng)
        return m
    if cls == 'tridiagonal':
        m = [[0.0] * n for _ in R]
        for i in R:
            for j in R:
                if abs(i - j) <= 1:
                    m[i][j] = rnd_entry(rng)
        return m
    if cls == 'scaled':
        s = 2.0 ** rng.randint(-40, 40)
        return [[rnd_entry(rng) * s for _ in R] for _ in R]
    if cls == 'mixed_scale':
        return [[rnd_entry(rng) * 2.0 ** rng.randint(-20, 20) for _ in R] for _ in R]
    if cls in ('lead_negative', 'lead_zero', 'lead_positive'):
        m = [[rnd_entry(rng) for _ in R] for _ in R]
        for k in range(n - 1):
            if cls == 'lead_negative':
                m[k + 1][k] = -abs(m[k + 1][k]) - 0.5
            elif cls == 'lead_zero':
                m[k + 1][k] = rng.choice([0.0, -0.0])
            else:
                m[k + 1][k] = abs(m[k + 1][k]) + 0.5
        return m
    if cls == 'identity_like':
        d = rng.choice([1.0, 2.0, -3.0])
        m = [[(d if i == j else 0.0) for j in R] for i in R]
        if n >= 2 and rng.random() < 0.5:
            i, j = rng.randrange(n), rng.randrange(n)
            m[i][j] = rnd_entry(rng)
        return m
    if cls == 'rank_one':
        u = [float(rng.randint(-4, 4)) for _ in R]
        v = [float(rng.randint(-4, 4)) for _ in R]
        return [[u[i] * v[j] for j in R] for i in R]
    if cls == 'single_below':
        # exactly one non-zero entry below the sub-diagonal of a column: |x| = |that entry|
        m = [[rnd_entry(rng) for _ in R] for _ in R]
        for j in R:
            for i in range(j + 1, n):
                m[i][j] = 0.0
        if n >= 3:
            j = rng.randrange(n - 2)
            i = rng.randrange(j + 2, n)
            m[i][j] = rnd_entry(rng)
        return m
    raise ValueError(cls)


CLASSES = ['dense', 'smallint', 'sparse', 'hessenberg_cols', 'zero_subcol', 'symmetric', 'tridiagonal', 'scaled',
           'mixed_scale', 'lead_negative', 'lead_zero', 'lead_positive', 'identity_like', 'rank_one', 'single_below']


def line_of(h, w, rows):
    toks = ['hess', str(h), str(w)]
    for r in rows:
        toks += [f2hex(x) for x in r]
    return ' '.join(toks)


def gen(rng, tier):
    per = 10 if tier == 'quick' else 150
    # every class at every size 0..10
    for n in range(0, 11):
        for cls in CLASSES:
            reps = per if n >= 3 else 1
            for _ in range(reps):
                m = make_matrix(rng, cls, n)
                yield Case(line_of(n, n, m), cls, None)
    # the crate's own tests
    yield Case(line_of(2, 2, [[1.0, 2.0], [3.0, 4.0]]), 'unit_tests', None)
    yield Case(line_of(3, 3, [[1.0, 5.0, 7.0], [3.0, 0.0, 6.0], [4.0, 3.0, 1.0]]), 'unit_tests', None)
    yield Case(line_of(4, 4, [[1.0, 2.0, 3.0, 4.0], [2.0, 1.0, 2.0, 3.0], [3.0, 2.0, 1.0, 2.0], [4.0, 3.0, 2.0, 1.0]]),
               'unit_tests', None)
    # all-zero matrices (every iteration skipped)
    for n in range(0, 11):
        yield Case(line_of(n, n, [[0.0] * n for _ in range(n)]), 'all_zero', None)
    # non-square shapes, including empty sides
    shapes = [(0, 1), (1, 0), (0, 3), (3, 0), (1, 2), (2, 1), (2, 3), (3, 2), (1, 10), (10, 1), (3, 4), (4, 3), (9, 10), (10, 9)]
    extra = 10 if tier == 'quick' else 150
    for _ in range(extra):
        h, w = rng.randint(0, 10), rng.randint(0, 10)
        if h != w:
            shapes.append((h, w))
    for (h, w) in shapes:
        rows = [[rnd_entry(rng) for _ in range(w)] for _ in range(h)]
        yield Case(line_of(h, w, rows), 'nonsquare', None)


# ------------------------------------------------------------------ parsing
def parse(case):
    t = case.line.split()
    h, w = int(t[1]), int(t[2])
    xs = [hex2f(x) for x in t[3:3 + h * w]]
    return h, w, [xs[i * w:(i + 1) * w] for i in range(h)]


def parse_out(impl, n):
    """'ok n H.. Q..' -> (H, Q) as float matrices, or None if malformed"""
    t = impl.split()
    if len(t) != 2 + 2 * n * n or t[0] != 'ok' or t[1] != str(n):
        return None
    if not all(is_hexfloat(x) for x in t[2:]):
        return None
    xs = [hex2f(x) for x in t[2:]]
    H = [xs[i * n:(i + 1) * n] for i in range(n)]
    Q = [xs[n * n + i * n:n * n + (i + 1) * n] for i in range(n)]
    return H, Q


def describe(case):
    h, w, rows = parse(case)
    return {'shape': [h, w], 'class': case.cls, 'rows': rows[:4]}


def nontrivial(case, impl):
    h, w, rows = parse(case)
    if h != w or h < 3:
        return False
    return any(rows[i][j] != 0.0 for j in range(h) for i in range(j + 2, h))


# ------------------------------------------------------------------ exact arithmetic on dyadic numbers
def to_int_matrix(M):
    """finite float matrix -> (integer matrix, e) with M = ints * 2^e exactly"""
    e = 0
    fr = []
    for row in M:
        r = []
        for x in row:
            m, ex = math.frexp(x)          # x = m * 2^ex, 0.5 <= |m| < 1
            mi = int(m * (1 << 53))        # exact
            r.append((mi, ex - 53))
            if mi != 0:
                e = min(e, ex - 53)
        fr.append(r)
    out = [[(mi << (ex - e)) if mi != 0 else 0 for (mi, ex) in r] for r in fr]
    return out, e


def imul(A, B):
    n, k, m = len(A), len(B), (len(B[0]) if B else 0)
    return [[sum(A[i][t] * B[t][j] for t in range(k)) for j in range(m)] for i in range(n)]


def itrans(A):
    return [list(r) for r in zip(*A)] if A else []


def sqrt_bounds(q):
    if q == 0:
        return Fraction(0), Fraction(0)
    k = 200
    num = q.numerator * (1 << (2 * k)) // q.denominator
    r = math.isqrt(num)
    return Fraction(r, 1 << k), Fraction(r + 1, 1 << k)


def dy(i, e):
    """integer * 2^e as a Fraction"""
    return Fraction(i * (1 << e)) if e >= 0 else Fraction(i, 1 << (-e))


def judge(case, impl):
    h, w, A = parse(case)
    if impl == 'panic' or impl.startswith('abort'):
        return 'panic instead of a result'
    if h != w:
        return None if impl == 'err NonSquareMatrix' else 'non-square input is not rejected with NonSquareMatrix'
    n = h
    if impl.startswith('err'):
        return 'square input rejected: ' + impl
    out = parse_out(impl, n)
    if out is None:
        return 'malformed output or wrong shape'
    H, Q = out
    for M in (H, Q):
        for r in M:
            for x in r:
                if x != x or math.isinf(x):
                    return 'non-finite entry in the result for a moderate finite input'
    if n <= 2:
        for i in range(n):
            for j in range(n):
                if f2hex(H[i][j]) != f2hex(A[i][j]):
                    return 'size <= 2: H differs from the input'
                if Q[i][j] != (1.0 if i == j else 0.0):
                    return 'size <= 2: Q is not the identity'
        return None
    Ai, ea = to_int_matrix(A)
    Hi, eh = to_int_matrix(H)
    Qi, eq = to_int_matrix(Q)
    frobA2 = dy(sum(x * x for r in Ai for x in r), 2 * ea)
    frobH2 = dy(sum(x * x for r in Hi for x in r), 2 * eh)
    a_lo, a_hi = sqrt_bounds(frobA2)
    h_lo, h_hi = sqrt_bounds(frobH2)
    env1 = CONST * n * n * EPS                      # orthogonality: scale 1
    envA = CONST * n * n * EPS * a_hi               # everything else: scale ||A||_F
    # Q^T Q = I
    QtQ = imul(itrans(Qi), Qi)
    worst = 0
    for i in range(n):
        for j in range(n):
            d = dy(QtQ[i][j], 2 * eq) - (1 if i == j else 0)
            worst = max(worst, abs(d))
    if worst > env1:
        return 'Q^T Q differs from I beyond 16 n^2 eps'
    # Q H Q^T = A
    QHQt = imul(imul(Qi, Hi), itrans(Qi))
    e3 = 2 * eq + eh
    worst = 0
    for i in range(n):
        for j in range(n):
            d = dy(QHQt[i][j], e3) - dy(Ai[i][j], ea)
            worst = max(worst, abs(d))
    if worst > envA:
        return 'Q H Q^T differs from A beyond 16 n^2 eps ||A||_F'
    # Hessenberg form
    worst = 0
    for j in range(n):
        for i in range(j + 2, n):
            worst = max(worst, abs(Fraction(H[i][j])))
    if worst > envA:
        return 'entry of H below the first sub-diagonal exceeds 16 n^2 eps ||A||_F'
    # trace and Frobenius norm
    trA = dy(sum(Ai[i][i] for i in range(n)), ea)
    trH = dy(sum(Hi[i][i] for i in range(n)), eh)
    if abs(trA - trH) > envA:
        return 'trace not preserved within 16 n^2 eps ||A||_F'
    if h_lo - a_hi > envA or a_lo - h_hi > envA:
        return 'Frobenius norm not preserved within 16 n^2 eps ||A||_F'
    return None


def compare(case, impl, model):
    """outcome kind exact; H and Q bit for bit (0.0 and -0.0 identified)"""
    if impl == model:
        return True
    a, b = impl.split(), model.split()
    if len(a) != len(b) or a[:2] != b[:2] or a[0] != 'ok':
        return False
    return all(same_float_tok(x, y) for x, y in zip(a[2:], b[2:]))


# ---- extraction cross-check: the same cases evaluated inside Coq by vm_compute
from tools import xenc
COQ_IMPORTS = 'Base.XEnc Model.Hessen'
XCHECK_N = 200


def coq_term(case):
    h, w, rows = parse(case)
    # thinned below XCHECK_N so that every eligible case is taken; functional matrices are slow under vm_compute,
    # so 7x7..10x10 are thinned harder; the (cheap) non-square cases are all kept
    if h == w and not xenc.keep(case, 30 if h >= 7 else 9):
        return None
    # Ok (H, Q) -> 0 :: bits of H row-major ++ bits of Q row-major (the 'n' the driver prints is an echo of the input)
    return ('enc_res (fun p => map float_bits (concat (fst p) ++ concat (snd p))) '
            '(@hessenberg_lists float FNum %d%%nat %d%%nat %s)' % (h, w, xenc.cq_fmat(rows)))


def encode_result(case, model_line):
    return xenc.enc_line(model_line, lambda t: [xenc.float_tok_bits(x) for x in t[1:]])
