# C13 — power method: generator, exact-rational oracle, comparison.
#
# wire:  pm|pma <es> <h> <w> <h*w entries>      (Vec<Vec<f64>> resp. &Arr2D<f64>)
#        rag <es> <r> (<len> <entries>)*r        possibly ragged rows
# answer: ok <lambda> <height> <width> <entries> | err <Kind> | panic
from fractions import Fraction
import math
from tools.lib import Case, f2hex, hex2f, ulp_dist

ID = 'C13'
C = 8                       # constant of the accuracy clauses (properties.jsonl / DESIGN)
MIN_START_COMPONENT = 0.1   # |<1, q1>| / ||1||  of the all-ones start vector along the dominant eigenvector

RULE = ('accuracy class: symmetric A = fl(Q D Q^T), n = 1..8, Q = I - 2uu^T/u^Tu (Householder, u dyadic rationals), '
        'D = diag(l1, l2..ln) with |li/l1| <= 1/2, l1 of either sign and magnitude 1e-3..1e3, all-ones start vector with a '
        'component >= 0.1 along q1, tolerances 1e-4..1e-12; termination class (n = 1..5): zero, nilpotent, diag(1,-1)-like '
        'equal-modulus pairs, rotations (complex dominant pair), NaN/inf entries, tolerance 0/negative/NaN/inf on good matrices; '
        'malformed: non-square, empty, ragged.  distinct = distinct case line; non-trivial = Ok answer for n >= 2 or a run '
        'to the iteration cap')
TRUSTED = ['extraction of the float instance (ExtrOcamlBasic, ExtrOCamlFloats, ExtrOCamlInt63) and ocaml/c13.ml',
           'Rust harness harness/src/bin/c13.rs', 'exact-rational oracle tools/props/c13.py',
           'accuracy clauses (residual, eigenvalue error) are NOT proved in Coq (spectral theory): judged by the oracle only',
           'Weyl perturbation bound |l1(fl A) - l1(A)| <= ||fl A - A||_F used by the oracle for the rounded test matrix']
ASSUMPTIONS = ['theorems c13_shape_norm / c13_exit_means_small_change are about the R instance (exact arithmetic); '
               'c13_total holds for every instance including floats',
               'Arr2D invariant inner.len() == height*width (the model reads entries with a default that is never reached on such arrays)']
PROFILES = {'quick': ['debug'], 'thorough': ['debug', 'release']}

TOLS = [1e-4, 1e-5, 1e-6, 1e-7, 1e-8, 1e-9, 1e-10, 1e-11, 1e-12]


# ----------------------------------------------------------------- helpers
def line_of(cmd, es, rows):
    h = len(rows)
    w = len(rows[0]) if rows else 0
    body = ' '.join(f2hex(x) for r in rows for x in r)
    return ('%s %s %d %d %s' % (cmd, f2hex(es), h, w, body)).strip()


def sqrt_up(q):
    """rational upper bound of sqrt(q), q >= 0"""
    if q == 0:
        return Fraction(0)
    k = 200
    num = q.numerator * (1 << (2 * k)) // q.denominator
    return Fraction(math.isqrt(num) + 1, 1 << k)


def float_up(q):
    """a float >= q (q >= 0 Fraction)"""
    f = float(q)
    while Fraction(f) < q:
        f = math.nextafter(f, math.inf)
    return f


def householder(u):
    n = len(u)
    uu = sum(x * x for x in u)
    return [[(1 if i == j else 0) - 2 * u[i] * u[j] / uu for j in range(n)] for i in range(n)]


def build_sym(u, D):
    """u, D lists of Fractions.  exact A = Q D Q^T, its rounding fl(A) (symmetric floats), delta >= ||fl A - A||_F"""
    n = len(u)
    Q = householder(u)
    A = [[sum(Q[i][k] * D[k] * Q[j][k] for k in range(n)) for j in range(n)] for i in range(n)]
    F = [[0.0] * n for _ in range(n)]
    err2 = Fraction(0)
    for i in range(n):
        for j in range(i, n):
            F[i][j] = F[j][i] = float(A[i][j])
    for i in range(n):
        for j in range(n):
            err2 += (Fraction(F[i][j]) - A[i][j]) ** 2
    return F, float_up(sqrt_up(err2))


def start_component(u):
    """|<1, q1>| / ||1||, q1 = first column of the Householder matrix of u (a unit vector)"""
    n = len(u)
    Q = householder(u)
    return float(abs(sum(Q[i][0] for i in range(n)))) / math.sqrt(n)


def sym_case(rng, n, sign):
    """random member of the accuracy class: fl(A), l1, delta, style"""
    while True:
        u = [Fraction(rng.randint(-64, 64), 64) for _ in range(n)]
        if any(u) and start_component(u) >= MIN_START_COMPONENT:
            break
    mag = 10.0 ** rng.uniform(-3, 3)
    l1 = sign * mag
    style = rng.choice(['half', 'spread', 'spread', 'mixed', 'tiny', 'repeat'])
    D = [Fraction(l1)]
    for k in range(1, n):
        if style == 'half':
            r = 0.5 * rng.choice([-1, 1]) if k == 1 else rng.uniform(-0.5, 0.5)
        elif style == 'spread':
            r = rng.uniform(-0.5, 0.5)
        elif style == 'mixed':
            r = rng.choice([-1, 1]) * 10.0 ** rng.uniform(-4, math.log10(0.5))
        elif style == 'tiny':
            r = rng.uniform(-1e-3, 1e-3)
        else:
            r = rng.choice([0.5, -0.5, 0.25, 0.0])
        d = Fraction(l1) * Fraction(r)
        if abs(d) * 2 > abs(Fraction(l1)):
            d = Fraction(l1) / 2
        D.append(d)
    F, delta = build_sym(u, D)
    return F, l1, delta, style


# Regression inputs of the repaired finding F13e (commit 734f679): members of the accuracy class on which the
# first Rayleigh quotient agrees with the first scaling component of A*1 to within the tolerance.  Before the
# repair the exit test compared these two and the call returned after one iteration with an eigenvalue off by
# 1-17 %.  (u of the Householder matrix, D, tolerance).  They must pass the ordinary oracle.
COINCIDENCES = [
    ([-1.0, 0.9375], [1.0, 0.4881], 1e-4),
    ([-1.0, 0.9375], [1.0, 0.488075], 1e-6),
    ([-0.90625, 0.8125, 0.15625], [1.0, -0.31932281545031405, 0.15298890108503505], 1e-4),
    ([-0.6875, 0.34375, 0.5625, -0.75], [1.0, -0.18423922757742228, 0.49478269661951235, 0.4032852763371061], 1e-4),
    ([0.140625, -0.328125, 0.421875, -0.484375],
     [-1.0, -0.17463728279526947, -0.48431332226217394, -0.2800834167126386], 1e-4),
]


def coincidence_cases(rng, tier):
    for u, D, es in COINCIDENCES:
        uf = [Fraction(x) for x in u]
        assert start_component(uf) >= MIN_START_COMPONENT and all(abs(d) * 2 <= abs(D[0]) for d in D[1:])
        F, delta = build_sym(uf, [Fraction(d) for d in D])
        yield Case(line_of('pm', es, F), 'accuracy coincidence',
                   {'kind': 'accuracy', 'l1': f2hex(D[0]), 'delta': f2hex(delta), 'style': 'coincidence'})


def accuracy_cases(rng, tier):
    per = 50 if tier == 'quick' else 600
    for n in range(1, 9):
        for sign in (1, -1):
            for _ in range(per if n > 1 else max(4, per // 10)):
                F, l1, delta, style = sym_case(rng, n, sign)
                es = rng.choice(TOLS)
                cmd = 'pma' if rng.random() < 0.25 else 'pm'
                yield Case(line_of(cmd, es, F), 'accuracy n=%d %s' % (n, 'pos' if sign > 0 else 'neg'),
                           {'kind': 'accuracy', 'l1': f2hex(l1), 'delta': f2hex(delta), 'style': style})


def rand_entry(rng):
    return rng.choice([rng.uniform(-2, 2), float(rng.randint(-3, 3)), 10.0 ** rng.uniform(-3, 3) * rng.choice([-1, 1])])


def embed(rng, block, n, small=True):
    """block-diagonal: block in the top-left corner, the rest a diagonal of modulus < the block's spectral radius"""
    k = len(block)
    M = [[0.0] * n for _ in range(n)]
    for i in range(k):
        for j in range(k):
            M[i][j] = block[i][j]
    for i in range(k, n):
        M[i][i] = rng.uniform(-0.4, 0.4) if small else 0.0
    return M


def termination_matrices(rng, tier):
    reps = 2 if tier == 'quick' else 12
    out = []
    for _ in range(reps):
        for n in range(1, 6):
            out.append(('zero', [[0.0] * n for _ in range(n)]))
            out.append(('zero', [[rng.choice([0.0, -0.0]) for _ in range(n)] for _ in range(n)]))
            if n >= 2:
                # nilpotent: strictly upper / strictly lower triangular, shift matrices
                out.append(('nilpotent', [[rand_entry(rng) if j > i else 0.0 for j in range(n)] for i in range(n)]))
                out.append(('nilpotent', [[rand_entry(rng) if j < i else 0.0 for j in range(n)] for i in range(n)]))
                out.append(('nilpotent', [[1.0 if j == i + 1 else 0.0 for j in range(n)] for i in range(n)]))
                # equal-modulus real pair
                a = rng.choice([1.0, 2.5, 1e-3, 1e3, rng.uniform(0.1, 10)])
                out.append(('equal-modulus', embed(rng, [[a, 0.0], [0.0, -a]], n)))
                out.append(('equal-modulus', embed(rng, [[0.0, a], [a, 0.0]], n)))
                out.append(('equal-modulus', embed(rng, [[1.0, 0.0], [0.0, -1.0]], n, small=False)))
                # complex dominant pair: (scaled) rotation
                th = rng.choice([math.pi / 2, math.pi / 3, math.pi / 4, 2.0, rng.uniform(0.05, 3.1)])
                s = rng.choice([1.0, 1.0, rng.uniform(0.5, 3.0)])
                rot = [[s * math.cos(th), -s * math.sin(th)], [s * math.sin(th), s * math.cos(th)]]
                out.append(('rotation', embed(rng, rot, n)))
                out.append(('rotation', embed(rng, [[0.0, -1.0], [1.0, 0.0]], n, small=False)))
            # NaN / inf entries
            M = [[rand_entry(rng) for _ in range(n)] for _ in range(n)]
            M[rng.randrange(n)][rng.randrange(n)] = float('nan')
            out.append(('nan', M))
            out.append(('nan', [[float('nan')] * n for _ in range(n)]))
            M = [[rand_entry(rng) for _ in range(n)] for _ in range(n)]
            for _ in range(rng.randint(1, n)):
                M[rng.randrange(n)][rng.randrange(n)] = rng.choice([float('nan'), float('inf'), -float('inf')])
            out.append(('nonfinite', M))
            M = [[rand_entry(rng) for _ in range(n)] for _ in range(n)]
            M[rng.randrange(n)][rng.randrange(n)] = rng.choice([float('inf'), -float('inf')])
            out.append(('nonfinite', M))
            # huge entries: products overflow to inf
            out.append(('overflow', [[rng.choice([-1, 1]) * 10.0 ** rng.uniform(300, 308) for _ in range(n)] for _ in range(n)]))
            # tiny entries: products underflow to 0
            out.append(('underflow', [[rng.choice([-1, 1]) * 10.0 ** rng.uniform(-320, -300) for _ in range(n)] for _ in range(n)]))
            # general (non-symmetric) random matrix
            out.append(('general', [[rand_entry(rng) for _ in range(n)] for _ in range(n)]))
            out.append(('general', [[float(rng.randint(-2, 2)) for _ in range(n)] for _ in range(n)]))
    return out


def termination_cases(rng, tier):
    for cls, M in termination_matrices(rng, tier):
        es = rng.choice([1e-4, 1e-8, 1e-12, 1e-8])
        cmd = 'pma' if rng.random() < 0.2 else 'pm'
        yield Case(line_of(cmd, es, M), 'termination ' + cls, {'kind': 'termination'})
    # good matrices with a tolerance that can never be met / is not a number / is always met
    k = 4 if tier == 'quick' else 30
    for _ in range(k):
        for es in (0.0, -1.0, float('nan'), float('inf'), 5e-324, 1e-300):
            n = rng.randint(1, 5)
            F, l1, delta, style = sym_case(rng, n, rng.choice([1, -1]))
            yield Case(line_of('pm', es, F), 'termination es=%r' % es, {'kind': 'termination'})


def malformed_cases(rng, tier):
    k = 2 if tier == 'quick' else 10
    es = 1e-8
    for _ in range(k):
        for h in range(0, 6):
            for w in range(0, 6):
                if h == w and h > 0:
                    continue
                M = [[rand_entry(rng) for _ in range(w)] for _ in range(h)]
                cmd = 'pma' if (h > 0 and w > 0 and rng.random() < 0.3) else 'pm'
                yield Case(('%s %s %d %d %s' % (cmd, f2hex(es), h, w, ' '.join(f2hex(x) for r in M for x in r))).strip(),
                           'malformed non-square' if h and w else 'malformed empty', {'kind': 'malformed'})
        for r in range(2, 6):
            lens = [rng.randint(0, 5) for _ in range(r)]
            if len(set(lens)) == 1:
                lens[-1] += 1
            rows = [[rand_entry(rng) for _ in range(l)] for l in lens]
            body = ' '.join(('%d %s' % (len(row), ' '.join(f2hex(x) for x in row))).strip() for row in rows)
            yield Case('rag %s %d %s' % (f2hex(es), r, body), 'malformed ragged', {'kind': 'ragged'})
        # rectangular input through the ragged entry point (same answer expected)
        n = rng.randint(1, 4)
        F, l1, delta, style = sym_case(rng, n, 1)
        body = ' '.join('%d %s' % (n, ' '.join(f2hex(x) for x in row)) for row in F)
        yield Case('rag %s %d %s' % (f2hex(1e-8), n, body), 'accuracy via rows', {'kind': 'accuracy', 'l1': f2hex(l1),
                                                                                 'delta': f2hex(delta), 'style': style})


def gen(rng, tier):
    yield from accuracy_cases(rng, tier)
    yield from coincidence_cases(rng, tier)
    yield from termination_cases(rng, tier)
    yield from malformed_cases(rng, tier)


# ----------------------------------------------------------------- parsing
def parse(case):
    t = case.line.split()
    cmd = t[0]
    es = hex2f(t[1])
    if cmd in ('pm', 'pma'):
        h, w = int(t[2]), int(t[3])
        vals = [hex2f(x) for x in t[4:4 + h * w]]
        rows = [vals[i * w:(i + 1) * w] for i in range(h)]
        if w == 0 and h > 0:
            rows = [[] for _ in range(h)]
        return cmd, es, rows
    r = int(t[2])
    k = 3
    rows = []
    for _ in range(r):
        l = int(t[k])
        rows.append([hex2f(x) for x in t[k + 1:k + 1 + l]])
        k += 1 + l
    return cmd, es, rows


def parse_ok(impl):
    t = impl.split()
    lam = hex2f(t[1])
    h, w = int(t[2]), int(t[3])
    vals = [hex2f(x) for x in t[4:]]
    return lam, h, w, vals


def describe(case):
    cmd, es, rows = parse(case)
    d = {'op': cmd, 'es': es, 'rows': len(rows), 'row_lengths': sorted(set(len(r) for r in rows)),
         'class': case.cls, 'first_row': rows[0][:8] if rows else []}
    if case.meta and case.meta.get('kind') == 'accuracy':
        d['dominant_eigenvalue'] = hex2f(case.meta['l1'])
    return d


def nontrivial(case, impl):
    _, _, rows = parse(case)
    return (impl.startswith('ok') and len(rows) >= 2) or impl == 'err NoConvergence'


# ----------------------------------------------------------------- oracle
def judge(case, impl):
    cmd, es, rows = parse(case)
    if impl == 'panic' or impl.startswith('abort'):
        return 'panic (the call must return Ok or Err on every input)'
    if not (impl.startswith('ok ') or impl.startswith('err ')):
        return 'malformed output ' + impl[:60]
    h = len(rows)
    lens = set(len(r) for r in rows)
    rectangular = len(lens) <= 1
    w = (lens.pop() if lens else 0)
    square = rectangular and h == w and h >= 1
    if not square:
        if impl.startswith('ok'):
            return 'non-square / empty / ragged input accepted'
        return None                                   # rejected with an error value
    n = h
    if impl.startswith('err'):
        if impl != 'err NoConvergence':
            return 'square input rejected with ' + impl
        if case.meta and case.meta.get('kind') == 'accuracy':
            return 'no convergence on a symmetric matrix with a strictly dominant eigenvalue (gap 1/2) and a good start vector'
        return None
    lam, vh, vw, vals = parse_ok(impl)
    if vh != n or vw != 1 or len(vals) != n:
        return 'returned vector is %dx%d (%d entries), expected %dx1' % (vh, vw, len(vals), n)
    if not (case.meta and case.meta.get('kind') == 'accuracy'):
        return None                                   # termination half: returned, did not panic, right shape
    # ---- accuracy half ----
    if any(x != x or math.isinf(x) for x in vals) or lam != lam or math.isinf(lam):
        return 'non-finite eigenpair on a finite symmetric matrix'
    mx = max(vals)
    if ulp_dist(mx, 1.0) > 1:
        return 'largest component of the returned vector is %r, not 1' % mx
    A = [[Fraction(x) for x in r] for r in rows]
    v = [Fraction(x) for x in vals]
    L = Fraction(lam)
    tol = Fraction(es)
    res2 = Fraction(0)
    for i in range(n):
        ri = sum(A[i][j] * v[j] for j in range(n)) - L * v[i]
        res2 += ri * ri
    vv = sum(x * x for x in v)
    if res2 > C * C * tol * L * L * vv:               # ||Av - lv|| <= C sqrt(tol) |l| ||v||, squared
        return 'residual ||Av - lambda v|| exceeds %d sqrt(tol) |lambda| ||v||' % C
    l1 = Fraction(hex2f(case.meta['l1']))
    delta = Fraction(hex2f(case.meta['delta']))       # |l1(fl A) - l1| <= delta (Weyl)
    if abs(L - l1) > C * tol * (abs(l1) + delta) + delta:
        return 'eigenvalue differs from the dominant eigenvalue by more than %d tol |l1|' % C
    return None


def compare(case, impl, model):
    return impl == model                              # outcome kind exact, lambda and v bit for bit


# ---- extraction cross-check: the same cases evaluated inside Coq by vm_compute
from tools import xenc
COQ_IMPORTS = 'Base.XEnc Model.Power'
XCHECK_N = 200


def coq_term(case):
    t = xenc.Toks(case.line)
    cmd = t.word()
    es = t.fl()
    if cmd in ('pm', 'pma'):
        h, w, rows = t.fmat()
    elif cmd == 'rag':
        rows = [t.fvec() for _ in range(t.int())]
    else:
        return None
    kind = case.meta.get('kind') if isinstance(case.meta, dict) else None
    # a run that exhausts the 100000 iterations costs ~2 s (2x2) to ~7 s (4x4) under vm_compute: of the
    # 'termination' classes only a few 1x1 / 2x2 cases are taken; the converging and the malformed ones are thinned by crc
    if kind == 'termination':
        if len(rows) > 2 or not xenc.keep(case, 3 if len(rows) == 1 else 20):
            return None
    elif not xenc.keep(case, 9 if kind == 'accuracy' else 3):
        return None
    # Ok (lambda, v) -> 0 :: bits lambda :: height :: width :: entries
    return ('enc_res (fun lv => float_bits (fst lv) :: Z.of_nat (ah (snd lv)) :: Z.of_nat (aw (snd lv)) :: map float_bits (ad (snd lv))) '
            '(@power_method float FNum %s %s%%float)' % (xenc.cq_fmat(rows), xenc.coq_float(es)))


def encode_result(case, model_line):
    return xenc.enc_line(model_line, lambda t: [xenc.float_tok_bits(t[0]), int(t[1]), int(t[2])] + [xenc.float_tok_bits(x) for x in t[3:]])
