# C19 — general expression parser (lexer, Pratt parser, constant folding, Display):
# generators, an independent reference reader + exact-rational evaluator (the oracle),
# comparison with the extracted model.
import hashlib
import itertools
import sys
from decimal import Decimal
from fractions import Fraction
from tools.lib import Case, f2hex, hex2f, cps

ID = 'C19'
sys.setrecursionlimit(20000)
RULE = ('(1) EXHAUSTIVE sequences over the 15 token kinds {2, 0, 1, x, y, pi, sin, + - * / ^ ! ( )}: every sequence up to '
        'length 4 (thorough: 5; 54 241 / 813 616 sequences) rendered to text and lexed by the real lexer, and also handed '
        'to the parser hook as a token vector where the text lexes to other tokens (adjacent digits or letters merge); '
        'beyond that every sequence that has a conventional reading (reference reader; juxtaposition of any two operands '
        'counts) of length 5 (56 820; thorough: length 6, 596 784), then random samples of readable and of arbitrary '
        'sequences up to length 7 (all 11.4 M / 171 M sequences are too many to run); '
        '(2) random expression trees of depth <= 6 over + - * / ^ % unary minus, !, six functions, four constants, '
        'juxtaposition, rendered with minimal and with redundant parentheses; (3) arbitrary strings up to 200 characters '
        '(ASCII, keywords, non-ASCII) and mutations of valid text, for totality; (4) arbitrary trees (all operator tags, '
        'paren flags, numbers incl. -0.0) handed to fold / Display directly.  Numbers are small integers and dyadic '
        'fractions (2, 0.5, 3.25 ...) whose `{}` output is their exact decimal expansion (<= 15 significant digits); '
        'where arbitrary text contains another number the Display text is excluded from the comparison.  Every case that '
        'has a reading is run twice: once judged by the oracle, once (prefix c) compared with the model only, so that the '
        'model is compared on known-finding inputs too; on those copies the extracted Coq reference reader '
        '(Model/RefExpr.v, the one the theorems speak about) must return exactly the tree of the oracle\'s own reader.  '
        'distinct = distinct line; non-trivial = the parser returned a tree')
TRUSTED = ['extraction of the float instance (ExtrOcamlBasic, ExtrOCamlFloats, ExtrOCamlInt63) and ocaml/c19.ml',
           'Rust harness harness/src/bin/c19.rs through the cfg(spindalis_verif) hook of advanced.rs',
           'reference reader and exact-rational evaluator of tools/props/c19.py (functions, constants and non-integral '
           'powers are uninterpreted symbols: a finer equivalence than equality of real functions)',
           'fmt_float (Model/Expr.v) = Rust `{}` of f64 on numbers with <= 15 significant decimal digits (measured)']
ASSUMPTIONS = ['theorems are about the R instance; numbers of tokens are reals there',
               'binding powers 0..5 (f64 in the code) are modelled as natural numbers (only compared and incremented)',
               'the conventional reading is Model/RefExpr.v: a unary minus applies to the following juxtaposition/power '
               'unit, a signed exponent is a signed atom (2^-x^2 = (2^-x)^2), ^ is left-associative (unit test '
               'test_valid_multiple_exponents), "log" is the decimal logarithm',
               '% and an explicit · are outside the operator list of the property: inputs containing them are compared '
               'with the model (correspondence) but not judged by the oracle']
EXHAUSTIVE = True

OPS = {'Add': '+', 'Sub': '-', 'Div': '/', 'Mul': '*', 'CDot': '·', 'Rem': '%', 'Caret': '^', 'Fac': '!'}
OPNAME = {v: k for k, v in OPS.items()}
FUNCS = {'Sin': 'sin', 'Cos': 'cos', 'Tan': 'tan', 'Cot': 'cot', 'Log': 'log', 'Ln': 'ln'}
CONSTS = {'Pi': 'pi', 'E': 'e', 'Tau': 'tau', 'Phi': 'phi'}
BP = {'Sub': 1, 'Add': 1, 'Mul': 2, 'Div': 2, 'Rem': 3, 'CDot': 4, 'Caret': 5}

# ------------------------------------------------------------------ wire format
def tok_wire(t):
    k = t[0]
    if k == 'n':
        return 'n:' + f2hex(t[1])
    if k == 'v':
        return 'v:' + ','.join(str(ord(c)) for c in t[1])
    if k == 'o':
        return 'o:' + t[1]
    if k == 'f':
        return 'f:' + t[1]
    if k == 'c':
        return 'c:' + t[1]
    return k


def tok_unwire(s):
    if s in ('lp', 'rp'):
        return (s,)
    k, v = s[:2], s[2:]
    if k == 'n:':
        return ('n', hex2f(v))
    if k == 'v:':
        return ('v', ''.join(chr(int(x)) for x in v.split(',') if x))
    return (k[0], v)


def expr_wire(e):
    k = e[0]
    if k == 'N':
        return 'N ' + f2hex(e[1])
    if k == 'V':
        return 'V ' + cps(e[1])
    if k == 'C':
        return 'C ' + e[1]
    if k in 'FPQ':
        return '%s %s %s' % (k, e[1], expr_wire(e[2]))
    return 'B %s %d %s %s' % (e[1], 1 if e[2] else 0, expr_wire(e[3]), expr_wire(e[4]))


def expr_unwire(t, i=0):
    """t: list of words; returns (expr, next index)"""
    k = t[i]
    if k == 'N':
        return ('N', hex2f(t[i + 1])), i + 2
    if k == 'V':
        n = int(t[i + 1])
        return ('V', ''.join(chr(int(x)) for x in t[i + 2:i + 2 + n])), i + 2 + n
    if k == 'C':
        return ('C', t[i + 1]), i + 2
    if k in 'FPQ':
        e, j = expr_unwire(t, i + 2)
        return (k, t[i + 1], e), j
    if k == 'B':
        l, j = expr_unwire(t, i + 3)
        r, j = expr_unwire(t, j)
        return ('B', t[i + 1], t[i + 2] == '1', l, r), j
    raise ValueError('expr tag ' + k)


def text_unwire(t):
    n = int(t[0])
    return ''.join(chr(int(x)) for x in t[1:1 + n])


def parse_result(line):
    """impl/model result line -> dict of sections"""
    d = {'raw': line}
    if line == 'panic' or line.startswith('abort') or not line:
        d['panic'] = True
        return d
    for sec in line.split(' ; '):
        w = sec.split()
        k = w[0]
        if k == 'lex':
            if w[1] == 'ok':
                d['tokens'] = [tok_unwire(x) for x in w[3:]]
            else:
                d['lexerr'] = w[2]
        elif k == 'parse':
            if w[1] == 'ok':
                d['unfolded'] = expr_unwire(w, 2)[0]
            else:
                d['parseerr'] = w[2]
        elif k == 'tree':
            d['unfolded'] = expr_unwire(w, 1)[0]
        elif k == 'fold':
            d['folded'] = expr_unwire(w, 1)[0]
        elif k in ('du', 'df'):
            d[k] = text_unwire(w[1:])
        elif k in ('ru', 'rf'):
            d[k] = ('ok', expr_unwire(w, 2)[0]) if w[1] == 'ok' else (w[1], w[2])
        elif k == 'INCONSISTENT':
            d['inconsistent'] = sec
        else:
            d['junk'] = sec
    return d


# ------------------------------------------------------------------ a small lexer (ASCII + '·'), used to pick cases and to
# classify findings from a displayed text; NOT used to judge
def mini_lex(s):
    s = s.replace(' ', '')
    out, i = [], 0
    while i < len(s):
        ch = s[i]
        if ch in '0123456789.':
            j = i
            while j < len(s) and s[j] in '0123456789.':
                j += 1
            w = s[i:j]
            if w.count('.') > 1 or w == '.':
                return None
            out.append(('n', float(w)))
            i = j
        elif ch.isascii() and ch.isalpha():
            j = i
            while j < len(s) and s[j].isascii() and s[j].isalpha():
                j += 1
            w = s[i:j]
            lw = w.lower()
            fn = [k for k, v in FUNCS.items() if v == lw]
            cn = [k for k, v in CONSTS.items() if v == lw]
            if len(w) == 1:
                out.append(('c', cn[0]) if cn else ('v', w))
            elif fn:
                out.append(('f', fn[0]))
            elif cn:
                out.append(('c', cn[0]))
            else:
                for c in w:
                    k = [k for k, v in CONSTS.items() if v == c.lower()]
                    out.append(('c', k[0]) if k else ('v', c))
            i = j
        elif ch in 'πτϕ':
            out.append(('c', {'π': 'Pi', 'τ': 'Tau', 'ϕ': 'Phi'}[ch])); i += 1
        elif ch == '(':
            out.append(('lp',)); i += 1
        elif ch == ')':
            out.append(('rp',)); i += 1
        elif ch in OPNAME:
            out.append(('o', OPNAME[ch])); i += 1
        else:
            return None
    return out


# ------------------------------------------------------------------ REFERENCE READER (the conventional reading)
#   sum      ::= product { (+|-) product }            left-associative
#   product  ::= unary { (*|/|%|·) unary }            left-associative
#   unary    ::= - unary | juxt                       the minus applies to the following factor only
#   juxt     ::= power { power }                      juxtaposition = multiplication, tighter than * /
#   power    ::= postfix { ^ exponent }               left-associative (unit test test_valid_multiple_exponents)
#   exponent ::= - exponent | postfix                 a signed exponent is a signed atom: 2^-x^2 = (2^-x)^2
#   postfix  ::= atom { ! }
#   atom     ::= number | variable | constant | ( sum ) | function ( sum )
# trees: ('N',x) ('V',name) ('C',name) ('F',fn,e) ('P','Sub',e) ('Q','Fac',e) ('B',op,paren,l,r)
class NoReading(Exception):
    pass


class Reader:
    def __init__(self, ts):
        self.ts, self.i = ts, 0

    def peek(self):
        return self.ts[self.i] if self.i < len(self.ts) else None

    def isop(self, names):
        t = self.peek()
        return t is not None and t[0] == 'o' and t[1] in names

    def sum(self):
        e = self.product()
        while self.isop(('Add', 'Sub')):
            op = self.peek()[1]; self.i += 1
            e = ('B', op, False, e, self.product())
        return e

    def product(self):
        e = self.unary()
        while self.isop(('Mul', 'Div', 'Rem', 'CDot')):
            op = self.peek()[1]; self.i += 1
            e = ('B', 'Mul' if op == 'CDot' else op, False, e, self.unary())
        return e

    def unary(self):
        if self.isop(('Sub',)):
            self.i += 1
            return ('P', 'Sub', self.unary())
        return self.juxt()

    def juxt(self):
        e = self.power()
        while self.peek() is not None and self.peek()[0] in ('n', 'v', 'c', 'f', 'lp'):
            e = ('B', 'Mul', False, e, self.power())
        return e

    def power(self):
        e = self.postfix()
        while self.isop(('Caret',)):
            self.i += 1
            e = ('B', 'Caret', False, e, self.exponent())
        return e

    def exponent(self):
        if self.isop(('Sub',)):
            self.i += 1
            return ('P', 'Sub', self.exponent())
        return self.postfix()

    def postfix(self):
        e = self.atom()
        while self.isop(('Fac',)):
            self.i += 1
            e = ('Q', 'Fac', e)
        return e

    def atom(self):
        t = self.peek()
        if t is None:
            raise NoReading()
        self.i += 1
        if t[0] == 'n':
            return ('N', t[1])
        if t[0] == 'v':
            return ('V', t[1])
        if t[0] == 'c':
            return ('C', t[1])
        if t[0] == 'f':
            if self.peek() != ('lp',):
                raise NoReading()
            self.i += 1
            e = self.sum()
            if self.peek() != ('rp',):
                raise NoReading()
            self.i += 1
            return ('F', t[1], e)
        if t[0] == 'lp':
            e = self.sum()
            if self.peek() != ('rp',):
                raise NoReading()
            self.i += 1
            return e
        raise NoReading()


def ref_read(ts):
    if len(ts) > 400:
        return None
    r = Reader(ts)
    try:
        e = r.sum()
    except NoReading:
        return None
    except RecursionError:
        return None
    return e if r.i == len(ts) else None


# ------------------------------------------------------------------ exact evaluation
UNDEF, SKIP = 'undef', 'skip'
CONST_VAL = {'Pi': Fraction(3141592653589793, 10 ** 15), 'E': Fraction(2718281828459045, 10 ** 15),
             'Tau': Fraction(6283185307179586, 10 ** 15), 'Phi': Fraction(1618033988749895, 10 ** 15)}
_sym_cache = {}


def sym(name, *args):
    """an uninterpreted function symbol: a fixed rational depending only on (name, args)"""
    k = (name,) + args
    v = _sym_cache.get(k)
    if v is None:
        h = hashlib.sha1(repr(k).encode()).digest()
        v = Fraction(int.from_bytes(h[:3], 'big') % 3989 - 1994, 1 + int.from_bytes(h[3:5], 'big') % 97)
        if v == 0:
            v = Fraction(7, 3)
        if len(_sym_cache) < 200000:
            _sym_cache[k] = v
    return v


def big(q):
    return q.numerator.bit_length() > 3000 or q.denominator.bit_length() > 3000


def power(x, y):
    if y.denominator == 1:
        n = y.numerator
        if x == 0:
            return UNDEF if n < 0 else (Fraction(1) if n == 0 else Fraction(0))
        if abs(n) * (x.numerator.bit_length() + x.denominator.bit_length()) > 6000:
            return SKIP
        return x ** n
    if x > 0:
        return abs(sym('pow', x, y))
    if x == 0 and y > 0:
        return Fraction(0)
    return UNDEF


def factorial(x):
    if x.denominator != 1 or x < 0:
        return UNDEF
    if x > 30:
        return SKIP
    r = 1
    for k in range(2, int(x) + 1):
        r *= k
    return Fraction(r)


def ev(e, env):
    k = e[0]
    if k == 'N':
        x = e[1]
        if x != x or x in (float('inf'), float('-inf')):
            return UNDEF
        return Fraction(x)
    if k == 'V':
        return env(e[1])
    if k == 'C':
        return CONST_VAL[e[1]]
    if k == 'F':
        a = ev(e[2], env)
        if a is UNDEF or a is SKIP:
            return a
        return sym(e[1], a)
    if k == 'P':
        a = ev(e[2], env)
        if a is UNDEF or a is SKIP:
            return a
        return -a if e[1] == 'Sub' else UNDEF
    if k == 'Q':
        a = ev(e[2], env)
        if a is UNDEF or a is SKIP:
            return a
        return factorial(a) if e[1] == 'Fac' else UNDEF
    op = e[1]
    a = ev(e[3], env)
    if a is UNDEF:
        return UNDEF
    b = ev(e[4], env)
    if b is UNDEF:
        return UNDEF
    if a is SKIP or b is SKIP:
        return SKIP
    if op == 'Add':
        r = a + b
    elif op == 'Sub':
        r = a - b
    elif op in ('Mul', 'CDot'):
        r = a * b
    elif op == 'Div':
        if b == 0:
            return UNDEF
        r = a / b
    elif op == 'Rem':
        if b == 0:
            return UNDEF
        q = a / b
        t = q.numerator // q.denominator if q >= 0 else -((-q.numerator) // q.denominator)
        r = a - b * t
    elif op == 'Caret':
        r = power(a, b)
        if r is UNDEF or r is SKIP:
            return r
    else:
        return UNDEF
    return SKIP if big(r) else r


POINT_VALUES = [
    [Fraction(0), Fraction(1), Fraction(2), Fraction(3)],
    [Fraction(2), Fraction(0), Fraction(3), Fraction(1), Fraction(4)],
    [Fraction(3, 2), Fraction(-5, 3), Fraction(7, 4), Fraction(-1, 2), Fraction(11, 5)],
    [Fraction(-2), Fraction(5, 2), Fraction(1, 3), Fraction(-7, 3), Fraction(9, 4)],
]


def envs(salt):
    """4 evaluation points; the value of a variable depends on its name, the point and the case"""
    h = hashlib.sha1(salt.encode()).digest()
    out = []
    for k, vals in enumerate(POINT_VALUES):
        def env(name, k=k, vals=vals, off=h[k]):
            return vals[(sum(map(ord, name)) * 7 + off + len(name)) % len(vals)]
        out.append(env)
    return out


def same_value(a, b):
    """None = no verdict at this point"""
    if a is SKIP or b is SKIP:
        return None
    return a == b


def denotes_same(e1, e2, points):
    for env in points:
        try:
            v = same_value(ev(e1, env), ev(e2, env))
        except RecursionError:
            return True
        if v is False:
            return False
    return True


def fold_preserves(u, f, points):
    for env in points:
        try:
            a = ev(u, env)
            if a is UNDEF or a is SKIP:
                continue
            b = ev(f, env)
        except RecursionError:
            return True
        if b is SKIP:
            continue
        if a != b:
            return False
    return True


# ------------------------------------------------------------------ the oracle
C_PANIC = 'totality: panic (or abort) instead of a tree or an error value'
C_NOREAD = 'precedence: the parser accepts a token sequence that has no conventional reading'
C_PARSE = 'precedence: the tree returned by the parser does not denote the conventional reading'
C_FOLD = 'folding: constant folding changes the value of an expression whose unfolded value is defined'
C_DISP_ERR = 'display: the text printed for a parsed tree is rejected by lexer/parser'
C_DISP = 'display: the text printed for a parsed tree reads back as a tree with a different value'
C_INCONS = 'harness: the crate\'s own entry points disagree with each other'
C_SELF = 'ORACLE-SELF-CHECK: the reference reader does not read back the generator\'s own rendering'


def outside_operator_list(d):
    """the property speaks about + - * / ^, unary minus, !, functions, constants, juxtaposition: an input with % or an
    explicit · (token or tree node) is compared with the model only"""
    if any(is_op(t, ('Rem', 'CDot')) for t in d.get('tokens', [])):
        return True
    return any(s[0] in 'BPQ' and s[1] in ('Rem', 'CDot') for s in subtrees(d['unfolded']))


def violated_clauses(case, impl):
    cmd = case.line.split(' ', 1)[0]
    d = parse_result(impl)
    if d.get('panic'):
        return [C_PANIC], d
    if cmd.startswith('c'):
        return [], d                          # comparison-only copy
    out = []
    if 'inconsistent' in d or 'junk' in d:
        out.append(C_INCONS)
    if 'unfolded' not in d:
        return out, d                          # an error value: nothing more is promised
    if outside_operator_list(d):
        return out, d                          # % and an explicit · : correspondence only
    pts = envs(case.line[:64])
    u, f = d['unfolded'], d['folded']
    if 'tokens' in d:
        ref = ref_read(d['tokens'])
        d['ref'] = ref
        if ref is None:
            out.append(C_NOREAD)
        elif not denotes_same(u, ref, pts):
            out.append(C_PARSE)
        src = (case.meta or {}).get('src') if isinstance(case.meta, dict) else None
        if src is not None and ref is not None and cmd == 'text':
            if not denotes_same(totuple(src), ref, pts):
                out.append(C_SELF)
    if not fold_preserves(u, f, pts):
        out.append(C_FOLD)
    if 'tokens' in d:                          # the parser's image only
        rf = d['rf']
        if rf[0] != 'ok':
            out.append(C_DISP_ERR)
        elif not denotes_same(f, rf[1], pts):
            out.append(C_DISP)
    return out, d


def judge(case, impl):
    v, _ = violated_clauses(case, impl)
    return ' | '.join(v) if v else None


# ------------------------------------------------------------------ known findings (Display only), keyed on syntactic classes
def subtrees(e):
    yield e
    if e[0] in 'FPQ':
        yield from subtrees(e[2])
    elif e[0] == 'B':
        yield from subtrees(e[3])
        yield from subtrees(e[4])


def is_op(t, names):
    return t is not None and t[0] == 'o' and t[1] in names


def known(case, impl, clause):
    """no known finding is left on the current tree (F16a-l were repaired in /repo, F16h/i are outside the property)"""
    return None


# ------------------------------------------------------------------ comparison with the model
def simple_number(x):
    """`{}` of x is its exact decimal expansion with <= 15 significant digits"""
    if x != x or x in (float('inf'), float('-inf')):
        return True                     # inf / NaN are modelled literally
    if x == 0:
        return True
    digits = Decimal(x).as_tuple().digits
    s = ''.join(map(str, digits)).strip('0')
    return len(s) <= 15


def numbers_of(line):
    return [hex2f(w[2:]) for w in line.split() if w.startswith('n:')] + \
           [hex2f(b) for a, b in zip(line.split(), line.split()[1:]) if a == 'N']


def strip_display(line):
    return ' ; '.join(s for s in line.split(' ; ') if not s.startswith(('du ', 'df ')))


def compare(case, impl, model):
    # the model line ends with the reading of the extracted Coq reference reader (Model/RefExpr.v): it must be the
    # reading of the oracle's own reader, structurally
    if ' ; ref ' in model:
        model, ref = model.rsplit(' ; ref ', 1)
        d = parse_result(impl)
        if 'tokens' in d:
            mine = ref_read(d['tokens'])
            if len(d['tokens']) <= 400 and ('none' if mine is None else expr_wire(mine)) != ref:
                return False
    if impl == model:
        return True
    if impl.startswith('lex ok') or impl.startswith('tree'):
        if not all(simple_number(x) for x in numbers_of(impl)):
            return strip_display(impl) == strip_display(model)
    return False


def nontrivial(case, impl):
    return ' ; fold ' in impl


# ------------------------------------------------------------------ generators
KINDS = [('n', 2.0), ('n', 0.0), ('n', 1.0), ('v', 'x'), ('v', 'y'), ('c', 'Pi'), ('f', 'Sin'),
         ('o', 'Add'), ('o', 'Sub'), ('o', 'Mul'), ('o', 'Div'), ('o', 'Caret'), ('o', 'Fac'), ('lp',), ('rp',)]


def num_text(x):
    s = repr(float(x))
    return s[:-2] if s.endswith('.0') else s


def tok_text(t):
    k = t[0]
    if k == 'n':
        return num_text(t[1])
    if k == 'v':
        return t[1]
    if k == 'o':
        return OPS[t[1]]
    if k == 'f':
        return FUNCS[t[1]]
    if k == 'c':
        return CONSTS[t[1]]
    return '(' if k == 'lp' else ')'


def toks_line(ts, pre=''):
    return ('%stoks %d %s' % (pre, len(ts), ' '.join(tok_wire(t) for t in ts))).strip()


def text_line(s, pre=''):
    return '%stext %s' % (pre, cps(s))


def readable_sequences(n):
    """all sequences of n token kinds with a conventional reading, by depth-first search with the local adjacency rules
    (after an operand: operator, !, ) or another operand; otherwise: an operand start) and balanced parentheses"""
    starts = [t for t in KINDS if t[0] in ('n', 'v', 'c', 'f', 'lp') or t == ('o', 'Sub')]
    after_operand = [t for t in KINDS if t != ('o', 'Sub') or True]
    out = []

    def go(seq, depth):
        k = len(seq)
        if k == n:
            if depth == 0 and ref_read(seq) is not None:
                out.append(tuple(seq))
            return
        prev = seq[-1] if seq else None
        if prev is None or prev == ('lp',) or (prev[0] == 'o' and prev[1] != 'Fac'):
            cands = starts
        elif prev[0] == 'f':
            cands = [('lp',)]
        else:
            cands = after_operand
        for t in cands:
            d = depth + (1 if t == ('lp',) else -1 if t == ('rp',) else 0)
            if d < 0 or d > n - k - 1:
                continue
            seq.append(t)
            go(seq, d)
            seq.pop()
    go([], 0)
    return out


def emit_tokens(seq, cls):
    """the sequence rendered to text (lexed by the real lexer); where the text lexes to other tokens (adjacent
    numbers or letters merge) the sequence is also handed over as a token vector"""
    seq = list(seq)
    txt = ''.join(tok_text(t) for t in seq)
    lx = mini_lex(txt)
    yield Case(text_line(txt), cls + '-text', None)
    if lx is not None and ref_read(lx) is not None:
        yield Case(text_line(txt, 'c'), cls + '-text', None)
    if lx != seq:
        yield Case(toks_line(seq), cls + '-toks', None)
        if ref_read(seq) is not None:
            yield Case(toks_line(seq, 'c'), cls + '-toks', None)


def random_readable(rng, n):
    starts = [t for t in KINDS if t[0] in ('n', 'v', 'c', 'f', 'lp') or t == ('o', 'Sub')]
    for _ in range(200):
        seq, depth = [], 0
        for k in range(n):
            prev = seq[-1] if seq else None
            if prev is None or prev == ('lp',) or (prev[0] == 'o' and prev[1] != 'Fac'):
                cands = starts
            elif prev[0] == 'f':
                cands = [('lp',)]
            else:
                cands = KINDS
            cands = [t for t in cands
                     if 0 <= depth + (1 if t == ('lp',) else -1 if t == ('rp',) else 0) <= n - k - 1]
            if not cands:
                break
            t = rng.choice(cands)
            depth += 1 if t == ('lp',) else -1 if t == ('rp',) else 0
            seq.append(t)
        if len(seq) == n and depth == 0 and ref_read(seq) is not None:
            return seq
    return [('v', 'x')]


def gen_exhaustive(rng, tier):
    full = 4 if tier == 'quick' else 5          # every sequence
    readable = 5 if tier == 'quick' else 6      # every sequence that has a conventional reading
    for n in range(0, full + 1):
        for seq in itertools.product(KINDS, repeat=n):
            yield from emit_tokens(seq, 'exh%d' % n)
    for n in range(full + 1, readable + 1):
        for seq in readable_sequences(n):
            yield from emit_tokens(seq, 'exh%d-readable' % n)
    for n, k in ((6, 6000), (7, 5000)) if tier == 'quick' else ((7, 150000),):
        for _ in range(k):
            yield from emit_tokens(random_readable(rng, n), 'exh%d-readable-sample' % n)
        for _ in range(k // 4):
            yield from emit_tokens([rng.choice(KINDS) for _ in range(n)], 'exh%d-sample' % n)


# source trees of the random-expression generator (conventional AST):
#   ['num', x] ['var', s] ['const', K] ['fn', F, e] ['neg', e] ['fac', e] ['bin', op, l, r] ['juxt', l, r] ['par', e]
NUMS = [0.0, 1.0, 2.0, 3.0, 5.0, 10.0, 0.5, 3.25, 0.125, 7.0, 12.0]
VARS = ['x', 'y', 'z', 'a', 'b']


def totuple(s):
    k = s[0]
    if k == 'num':
        return ('N', s[1])
    if k == 'var':
        return ('V', s[1])
    if k == 'const':
        return ('C', s[1])
    if k == 'fn':
        return ('F', s[1], totuple(s[2]))
    if k == 'neg':
        return ('P', 'Sub', totuple(s[1]))
    if k == 'fac':
        return ('Q', 'Fac', totuple(s[1]))
    if k == 'bin':
        return ('B', s[1], False, totuple(s[2]), totuple(s[3]))
    if k == 'juxt':
        return ('B', 'Mul', False, totuple(s[1]), totuple(s[2]))
    if k == 'par':
        return totuple(s[1])
    raise ValueError(k)


def level(s):
    """grammar level of a source tree: 1 sum, 2 product, 3 unary, 4 juxt, 5 power, 6 postfix, 7 atom"""
    k = s[0]
    if k == 'bin':
        op = s[1]
        if op in ('Add', 'Sub'):
            return 1
        if op in ('Mul', 'Div', 'Rem', 'CDot'):
            return 2
        return 5
    if k == 'neg':
        return 3
    if k == 'juxt':
        return 4
    if k == 'fac':
        return 6
    return 7


def render(s, rng=None, extra=0.0):
    """text with minimal parentheses for the reference grammar; with rng/extra: redundant ones as well"""
    def sub(c, minlevel):
        t = render(c, rng, extra)
        if level(c) < minlevel:
            return '(' + t + ')'
        return t
    k = s[0]
    if k == 'num':
        out = num_text(s[1])
    elif k == 'var':
        out = s[1]
    elif k == 'const':
        out = CONSTS[s[1]]
    elif k == 'fn':
        out = FUNCS[s[1]] + '(' + render(s[2], rng, extra) + ')'
    elif k == 'par':
        out = '(' + render(s[1], rng, extra) + ')'
    elif k == 'neg':
        out = '-' + sub(s[1], 3)
    elif k == 'fac':
        out = sub(s[1], 6) + '!'
    elif k == 'juxt':
        out = sub(s[1], 4) + sub(s[2], 5)
    else:
        op = s[1]
        if op in ('Add', 'Sub'):
            out = sub(s[2], 1) + OPS[op] + sub(s[3], 2)
        elif op in ('Mul', 'Div', 'Rem', 'CDot'):
            out = sub(s[2], 2) + OPS[op] + sub(s[3], 3)
        else:
            r, sign = s[3], ''
            while r[0] == 'neg':                      # exponent ::= - exponent | postfix
                r, sign = r[1], sign + '-'
            out = sub(s[2], 5) + '^' + sign + sub(r, 6)
    if rng is not None and extra > 0 and rng.random() < extra:
        out = '(' + out + ')'
    return out


def first_kind(s):
    """kind of the first token of the minimal rendering: n v c f lp or -"""
    k = s[0]
    if k == 'num':
        return 'n'
    if k == 'var':
        return 'v'
    if k == 'const':
        return 'c'
    if k == 'fn':
        return 'f'
    if k == 'par':
        return 'lp'
    if k == 'neg':
        return '-'
    if k == 'fac':
        return first_kind(s[1]) if level(s[1]) >= 6 else 'lp'
    if k == 'juxt':
        return first_kind(s[1]) if level(s[1]) >= 4 else 'lp'
    need = {'Add': 1, 'Sub': 1, 'Mul': 2, 'Div': 2, 'Rem': 2, 'CDot': 2, 'Caret': 5}[s[1]]
    return first_kind(s[2]) if level(s[2]) >= need else 'lp'


def last_kind(s):
    k = s[0]
    if k == 'num':
        return 'n'
    if k == 'var':
        return 'v'
    if k == 'const':
        return 'c'
    if k in ('fn', 'par'):
        return 'rp'
    if k == 'fac':
        return '!'
    if k == 'neg':
        return last_kind(s[1]) if level(s[1]) >= 3 else 'rp'
    if k == 'juxt':
        return last_kind(s[2]) if level(s[2]) >= 5 else 'rp'
    r = s[3]
    if s[1] == 'Caret':
        while r[0] == 'neg':
            r = r[1]
        return last_kind(r) if level(r) >= 6 else 'rp'
    need = 2 if s[1] in ('Add', 'Sub') else 3
    return last_kind(r) if level(r) >= need else 'rp'


def juxt_ok(l, r):
    """the two texts can be juxtaposed without the lexer merging them into another token"""
    a = last_kind(l) if level(l) >= 4 else 'rp'
    b = first_kind(r) if level(r) >= 5 else 'lp'
    if a == 'n':
        return b in ('v', 'c', 'f', 'lp')
    if a == 'v':
        return b in ('n', 'v', 'lp')
    if a == 'c':
        return b in ('n', 'lp')
    return False


def rand_tree(rng, depth, fold_bias):
    if depth <= 0 or rng.random() < 0.12:
        r = rng.random()
        if r < 0.45:
            if rng.random() < fold_bias:
                return ['num', rng.choice([0.0, 0.0, 1.0])]
            return ['num', rng.choice(NUMS)]
        if r < 0.95:
            return ['var', rng.choice(VARS)]
        return ['const', rng.choice(['E', 'E', 'E', 'Pi', 'Tau', 'Phi'])]
    r = rng.random()
    if r < 0.50:
        op = rng.choice(['Add', 'Sub', 'Mul', 'Div', 'Caret', 'Add', 'Sub', 'Mul', 'Div', 'Caret', 'Caret', 'Rem', 'CDot']
                        if rng.random() < 0.3 else ['Add', 'Sub', 'Mul', 'Div', 'Caret'])
        return ['bin', op, rand_tree(rng, depth - 1, fold_bias), rand_tree(rng, depth - 1, fold_bias)]
    if r < 0.62:
        return ['neg', rand_tree(rng, depth - 1, fold_bias)]
    if r < 0.72:
        return ['fn', rng.choice(list(FUNCS)), rand_tree(rng, depth - 1, fold_bias)]
    if r < 0.78:
        return ['fac', rand_tree(rng, depth - 1, fold_bias)]
    if r < 0.84:
        return ['par', rand_tree(rng, depth - 1, fold_bias)]
    for _ in range(6):
        l, rr = rand_tree(rng, depth - 1, fold_bias), rand_tree(rng, depth - 1, fold_bias)
        if rng.random() < 0.5:
            l = ['num', rng.choice(NUMS)]
        if juxt_ok(l, rr):
            return ['juxt', l, rr]
    return ['juxt', ['num', rng.choice(NUMS)], ['var', rng.choice(VARS)]]


def gen_trees(rng, tier):
    n = 2500 if tier == 'quick' else 40000
    for i in range(n):
        depth = rng.choice([1, 2, 2, 3, 3, 4, 4, 5, 6])
        s = rand_tree(rng, depth, rng.choice([0.0, 0.3, 0.6]))
        for cls, txt in (('tree-minimal', render(s)), ('tree-redundant', render(s, rng, 0.25))):
            if len(txt) > 400:
                continue
            yield Case(text_line(txt), cls, {'src': s, 'text': txt})
            yield Case(text_line(txt, 'c'), cls, None)
    # fixed cases: the replays of the former findings F16a-l (now regression cases) and of the remaining ones
    for txt in ('xe', 'xe+1', '2xe', 'ex', 'ye^2', '(xe)', 'exe',
                'x/-y*z', '2^-x*y', 'sin(x)^2', 'sin(x)!', '(0+a*b)^2', '(x+y-0)*z', '0^x', '0^(1-1)', '(-x)^2', '(-a)!',
                '2*(-x)^2', 'x^(0-1)^y', '5*2^3', 'pi', '2pi', 'tau+phi+e', '(sin(x))^2', '2^-x^2', '2^-2x', '-x^2', '-2x!',
                'a/(-b*c)', 'x^(-y^z)', 'a/(0-b*c)', '5*2!^3', '5*2^3^4', 'x/yz', '2/-xx', 'a/2(x+1)', 'x/2sin(y)'):
        yield Case(text_line(txt), 'tree-fixed', None)
        yield Case(text_line(txt, 'c'), 'tree-fixed', None)


ALPHABET = list('0123456789..xyzabeEpi') + ['sin', 'cos', 'tan', 'cot', 'log', 'ln', 'pi', 'tau', 'phi', 'e', 'SIN', 'Pi'] + \
    list('+-*/^!%()') * 2 + [' ', '\t', '·', 'π', 'τ', 'ϕ', 'é', '中', '\U0001f600', '#', ',', '=',
                             '_', '²', '−', '×', '\n', '[', '|']


def gen_strings(rng, tier):
    n = 1500 if tier == 'quick' else 30000
    for _ in range(n):
        k = rng.choice([1, 2, 3, 5, 8, 13, 30, 60, 120, 200])
        s = ''
        while len(s) < k:
            s += rng.choice(ALPHABET)
        yield Case(text_line(s[:200]), 'string-random', None)
    for _ in range(n):
        s = render(rand_tree(rng, rng.choice([2, 3, 4]), 0.2), rng, 0.1)
        for _ in range(rng.choice([1, 1, 2, 3])):
            if not s:
                break
            i = rng.randrange(len(s))
            m = rng.random()
            if m < 0.35:
                s = s[:i] + s[i + 1:]
            elif m < 0.7:
                s = s[:i] + rng.choice(ALPHABET) + s[i:]
            else:
                s = s[:i] + rng.choice(ALPHABET) + s[i + 1:]
        yield Case(text_line(s[:200]), 'string-mutated', None)
    for s in ('(' * 200, ')' * 200, '-' * 200, '!' * 200, 'x' * 200, '(' * 100 + 'x' + ')' * 100, '-' * 199 + 'x',
              'x' + '!' * 199, '2^' * 99 + '2', 'sin(' * 50 + 'x' + ')' * 50, '9' * 200, '.' * 3, '1' + '0' * 199,
              '0.' + '0' * 190 + '1', 'x' + '^2' * 99, ''):
        yield Case(text_line(s), 'string-deep', None)


def rand_expr(rng, depth):
    """arbitrary tree of the implementation's Expr type"""
    if depth <= 0 or rng.random() < 0.2:
        r = rng.random()
        if r < 0.5:
            return ('N', rng.choice([0.0, -0.0, 1.0, -1.0, 2.0, 0.5, 3.25, 0.0, 1.0, 5.0, -2.0, 10.0]))
        if r < 0.9:
            return ('V', rng.choice(VARS + ['e']))
        return ('C', rng.choice(list(CONSTS)))
    r = rng.random()
    if r < 0.65:
        op = rng.choice(['Add', 'Sub', 'Mul', 'Div', 'Caret'] * 3 + ['Rem', 'CDot', 'Fac'])
        return ('B', op, rng.random() < 0.3, rand_expr(rng, depth - 1), rand_expr(rng, depth - 1))
    if r < 0.78:
        return ('P', rng.choice(['Sub', 'Sub', 'Sub', 'Add', 'Fac']), rand_expr(rng, depth - 1))
    if r < 0.9:
        return ('F', rng.choice(list(FUNCS)), rand_expr(rng, depth - 1))
    return ('Q', rng.choice(['Fac', 'Fac', 'Fac', 'Sub']), rand_expr(rng, depth - 1))


def gen_exprs(rng, tier):
    n = 2000 if tier == 'quick' else 30000
    for _ in range(n):
        e = rand_expr(rng, rng.choice([1, 2, 3, 4, 5, 6]))
        yield Case('tree ' + expr_wire(e), 'expr-direct', None)
        yield Case('ctree ' + expr_wire(e), 'expr-direct', None)


def gen(rng, tier):
    yield from gen_exhaustive(rng, tier)
    yield from gen_trees(rng, tier)
    yield from gen_strings(rng, tier)
    yield from gen_exprs(rng, tier)


# ------------------------------------------------------------------ reporting
def show(e):
    k = e[0]
    if k == 'N':
        return num_text(e[1])
    if k == 'V':
        return e[1]
    if k == 'C':
        return e[1]
    if k == 'F':
        return '%s[%s]' % (e[1], show(e[2]))
    if k == 'P':
        return '%s[%s]' % ('neg' if e[1] == 'Sub' else 'pre' + e[1], show(e[2]))
    if k == 'Q':
        return '%s[%s]' % ('fac' if e[1] == 'Fac' else 'post' + e[1], show(e[2]))
    return '%s%s %s %s%s' % ('{' if e[2] else '[', show(e[3]), OPS[e[1]], show(e[4]), '}' if e[2] else ']')


def describe(case):
    w = case.line.split()
    cmd = w[0]
    try:
        if cmd in ('text', 'ctext'):
            return {'cmd': cmd, 'text': text_unwire(w[1:])}
        if cmd in ('toks', 'ctoks'):
            return {'cmd': cmd, 'tokens': ' '.join(tok_text(tok_unwire(x)) for x in w[2:])}
        return {'cmd': cmd, 'tree': show(expr_unwire(w, 1)[0])}
    except Exception:
        return {'line': case.line[:300]}


# ---- extraction cross-check: the same cases evaluated inside Coq by vm_compute
# The driver ocaml/c19.ml prints, per line: the lexer's answer, parse_unfolded's tree, its fold, Display of both and
# what re-reading the two displayed strings gives, and (on the c-prefixed copies) the reference reader's tree; a model
# Panic anywhere turns the whole line into 'panic'.  The term below computes the same chain with the same instances as
# P19.v (lexer/fold at FNum, display with fmt_float) and encodes every printed item; the driver's internal consistency
# checks against f_parser print nothing when they hold and are not re-done here.
from tools import xenc
COQ_IMPORTS = 'Base.XEnc Base.Str Model.Expr Model.RefExpr'
XCHECK_N = 200
_X_OPS = ['Add', 'Sub', 'Div', 'Mul', 'CDot', 'Rem', 'Caret', 'Fac']
_X_FNS = ['Sin', 'Cos', 'Tan', 'Cot', 'Log', 'Ln']
_X_KS = ['Pi', 'E', 'Tau', 'Phi']

_X_PRELUDE = '''(
  let ec := fun c => match c with KPi => 0 | KE => 1 | KTau => 2 | KPhi => 3 end in
  let eo := fun o => match o with OAdd => 0 | OSub => 1 | ODiv => 2 | OMul => 3 | OCDot => 4 | ORem => 5 | OCaret => 6 | OFac => 7 end in
  let ef := fun f => match f with FSin => 0 | FCos => 1 | FTan => 2 | FCot => 3 | FLog => 4 | FLn => 5 end in
  let et := fun (t : token float) => match t with
    | TNum x => [0; float_bits x] | TVar v => 1 :: enc_str v | TOp o => [2; eo o] | TFun f => [3; ef f]
    | TConst c => [4; ec c] | TLParen => [5] | TRParen => [6] end in
  let ee := fix ee (e : expr float) : list Z := match e with
    | ENum x => [0; float_bits x] | EVar v => 1 :: enc_str v | EConst c => [2; ec c]
    | EFun f i => 3 :: ef f :: ee i | EPre o v => 4 :: eo o :: ee v | EPost o v => 5 :: eo o :: ee v
    | EBin o l r p => 6 :: eo o :: (if p then 1 else 0) :: ee l ++ ee r end in
  let P := -2 in
  let rr := fun (text : list N) =>
    match @lexer float FNum text with
    | Panic _ => [P] | Err e => [1; err_code e]
    | Ok ts => match @parse_unfolded float ts with
      | Panic _ => [P] | Err e => [2; err_code e]
      | Ok e => match @fold_operations float FNum e with Ok e' => 0 :: ee e' | _ => [P] end end end in
  let aft := fun (u : expr float) =>
    match @fold_operations float FNum u with
    | Ok f => ee f ++ enc_str (@display float fmt_float u) ++ rr (@display float fmt_float u)
              ++ enc_str (@display float fmt_float f) ++ rr (@display float fmt_float f)
    | _ => [P] end in
  let atk := fun (wr : bool) (ts : list (token float)) =>
    match @parse_unfolded float ts with
    | Panic _ => [P] | Err e => [1; err_code e] | Ok u => 0 :: ee u ++ aft u end
    ++ (if wr then enc_opt ee (@ref_read float ts) else []) in
  let fin := fun (l : list Z) => if existsb (Z.eqb P) l then [2] else l in
  '''


def _x_tok(w):
    if w == 'lp':
        return 'TLParen'
    if w == 'rp':
        return 'TRParen'
    k, v = w[:2], w[2:]
    if k == 'n:':
        return 'TNum %s%%float' % xenc.coq_float(hex2f(v))
    if k == 'v:':
        return 'TVar %s' % xenc.cq_str([int(x) for x in v.split(',') if x])
    if k == 'o:' and v in _X_OPS:
        return 'TOp O' + v
    if k == 'f:' and v in _X_FNS:
        return 'TFun F' + v
    if k == 'c:' and v in _X_KS:
        return 'TConst K' + v
    raise ValueError(w)


def _x_expr(t):
    w = t.word()
    if w == 'N':
        return '(ENum %s%%float)' % xenc.coq_float(t.fl())
    if w == 'V':
        return '(EVar %s)' % xenc.cq_str(t.cpstr())
    if w == 'C':
        return '(EConst K%s)' % t.word()
    if w == 'F':
        f = t.word()
        return '(EFun F%s %s)' % (f, _x_expr(t))
    if w in 'PQ':
        o = t.word()
        return '(%s O%s %s)' % ('EPre' if w == 'P' else 'EPost', o, _x_expr(t))
    if w == 'B':
        o = t.word()
        p = t.int() == 1
        l = _x_expr(t)
        r = _x_expr(t)
        return '(EBin O%s %s %s %s)' % (o, l, r, xenc.cq_bool(p))
    raise ValueError(w)


def coq_term(case):
    # crc thinning below XCHECK_N so that every eligible case is taken; the small classes are thinned less
    c = case.cls
    m = (2 if c in ('string-deep', 'exh0-text', 'exh1-text') else 12 if c == 'tree-fixed' else 150 if c.startswith('string-')
         else 300 if c.startswith('tree-') or c == 'expr-direct' else 60 if c.startswith('exh2') else 600 if c.startswith('exh3')
         else 1200 if 'sample' in c else 6000)
    if not xenc.keep(case, m):
        return None
    t = xenc.Toks(case.line)
    cmd = t.word()
    wr = xenc.cq_bool(cmd[0] == 'c' and cmd != 'ctree')
    try:
        if cmd in ('text', 'ctext'):
            s = t.cpstr()
            if len(s) > 120:                      # the 200-character nests are deep recursions for Coq's VM
                return None
            body = ('fin (match @lexer float FNum %s with Panic _ => [P] | Err e => [1; err_code e] '
                    '| Ok ts => 0 :: enc_list et ts ++ atk %s ts end)' % (xenc.cq_str(s), wr))
        elif cmd in ('toks', 'ctoks'):
            ts = '([%s] : list (token float))' % '; '.join(_x_tok(t.word()) for _ in range(t.int()))
            body = 'fin (0 :: enc_list et %s ++ atk %s %s)' % (ts, wr, ts)
        elif cmd in ('tree', 'ctree'):
            e = _x_expr(t)
            body = 'fin (ee %s ++ aft %s)' % (e, e)
        else:
            return None
    except (ValueError, IndexError):
        return None
    return _X_PRELUDE + body + ')'


def _x_enc_expr(t, k):
    """prefix-notation expression in the word list t from index k -> (encoding, next index)"""
    w = t[k]
    if w == 'N':
        return [0, xenc.float_tok_bits(t[k + 1])], k + 2
    if w == 'V':
        n = int(t[k + 1])
        return [1, n] + [int(x) for x in t[k + 2:k + 2 + n]], k + 2 + n
    if w == 'C':
        return [2, _X_KS.index(t[k + 1])], k + 2
    if w == 'F':
        e, j = _x_enc_expr(t, k + 2)
        return [3, _X_FNS.index(t[k + 1])] + e, j
    if w in ('P', 'Q'):
        e, j = _x_enc_expr(t, k + 2)
        return [4 if w == 'P' else 5, _X_OPS.index(t[k + 1])] + e, j
    assert w == 'B', t[k:k + 4]
    l, j = _x_enc_expr(t, k + 3)
    r, j = _x_enc_expr(t, j)
    return [6, _X_OPS.index(t[k + 1]), int(t[k + 2])] + l + r, j


def _x_whole_expr(t):
    e, j = _x_enc_expr(t, 0)
    assert j == len(t), t
    return e


def _x_enc_tok(w):
    if w == 'lp':
        return [5]
    if w == 'rp':
        return [6]
    k, v = w[:2], w[2:]
    if k == 'n:':
        return [0, xenc.float_tok_bits(v)]
    if k == 'v:':
        cpl = [int(x) for x in v.split(',') if x]
        return [1, len(cpl)] + cpl
    return {'o:': [2, _X_OPS.index(v)] if v in _X_OPS else None, 'f:': [3, _X_FNS.index(v)] if v in _X_FNS else None,
            'c:': [4, _X_KS.index(v)] if v in _X_KS else None}[k]


def encode_result(case, model_line):
    if model_line == 'panic':
        return [2]
    out = []
    for seg in model_line.split(' ; '):
        t = seg.split()
        h = t[0]
        if h == 'INCONSISTENT':
            continue                                   # a self-check of the driver, judged by compare(), not re-done in Coq
        if h in ('lex', 'parse'):
            if t[1] == 'err':
                out += [1, xenc.err_code(t[2])]
            elif h == 'lex':
                n = int(t[2])
                assert len(t) == 3 + n, seg
                out += [0, n]
                for w in t[3:]:
                    out += _x_enc_tok(w)
            else:
                out += [0] + _x_whole_expr(t[2:])
        elif h in ('tree', 'fold'):
            out += _x_whole_expr(t[1:])
        elif h in ('du', 'df'):
            n = int(t[1])
            assert len(t) == 2 + n, seg
            out += [n] + [int(x) for x in t[2:]]
        elif h in ('ru', 'rf'):
            if t[1] == 'lexerr':
                out += [1, xenc.err_code(t[2])]
            elif t[1] == 'parseerr':
                out += [2, xenc.err_code(t[2])]
            else:
                assert t[1] == 'ok', seg
                out += [0] + _x_whole_expr(t[2:])
        elif h == 'ref':
            out += [0] if t[1] == 'none' else [1] + _x_whole_expr(t[1:])
        else:
            return [-99]
    return out
