# C03 — symbolic derivatives (and the shared machinery of C04: generator of parser-reachable
# polynomial structures with their source text, exact-rational oracle, comparison).
#
# A case is: a polynomial STRUCTURE + a source string that must parse to it + a chain of up to three
# operations (du | dm name | iu | im name) + a final action (eu points | em bindings | ai a b c | none).
from fractions import Fraction as Fr
from decimal import Decimal, localcontext
import math
from tools.lib import Case, f2hex, hex2f, same_float_tok, cps, is_hexfloat

ID = 'C03'
EPS = Fr(1, 2 ** 52)
RULE = ('polynomial structures reachable from the two parsers, each with a source string that the real parser must turn '
        'into exactly that structure: univariate dense (any alphabetic letter, repeated powers, constants, empty input) and '
        'multivariate term lists (constant, one letter with non-negative / negative / fractional exponents, 2-4 letters, '
        'a letter repeated inside a term, explicit ^0, empty input), plus a deterministic class at the extreme degrees the '
        'univariate parser accepts (x^65535, 3x^65535 - x^65534 + 1, 2x^65534 + x: structure only, coefficient by coefficient) x chains of 1-3 operations starting with a derivative '
        '(derivate_univariate, derivate_multivariate by a present / absent / multi-letter / empty name, then any of the four '
        'derive/integrate entry points) x final evaluation (eval_univariate at points, eval_multivariate with complete, '
        'redundant or incomplete bindings); distinct = distinct case line; non-trivial = at least one term with a variable')
TRUSTED = ['extraction of the float instance of Model/Poly.v, Model/Definite.v (ExtrOcamlBasic, ExtrOCamlFloats, ExtrOCamlInt63) and ocaml/c03.ml',
           'Rust harness harness/src/bin/c03.rs (parses the source with the real parser and checks it against the structure on the line)',
           'exact-rational oracle tools/props/c03.py (Fraction arithmetic; decimal at 60 digits for non-integral exponents)',
           'multivariate values with non-integral exponents: libm powf is not modelled for floats; judged by the oracle only']
ASSUMPTIONS = ['theorems are about the R instance (exact arithmetic, Rpowf on its natural domain); rounding envelopes are measured, not proved',
               'f64::powi == compiler-rt square-and-multiply (bit-for-bit comparison of univariate values)',
               'libm powf within 1 ulp; multivariate values compared with the model under a relative envelope']

LETTERS = 'abcdefghijklmnopqrstuvwxyzABCDEFGHIJKLMNOPQRSTUVWXYZ'


# ----------------------------------------------------------------- structures and wire format
def enc_name(n):
    return cps(n)


def enc_simple(coefs, var):
    v = '-' if var is None else str(ord(var))
    return ('S %s %d %s' % (v, len(coefs), ' '.join(f2hex(c) for c in coefs))).strip()


def enc_inter(terms, vars_):
    out = ['I', str(len(terms))]
    for c, vs in terms:
        out += [f2hex(c), str(len(vs))]
        for n, e in vs:
            out += [enc_name(n), f2hex(e)]
    out.append(str(len(vars_)))
    out += [enc_name(n) for n in vars_]
    return ' '.join(out)


class Rd:
    def __init__(self, toks):
        self.t = toks
        self.i = 0

    def word(self):
        w = self.t[self.i]
        self.i += 1
        return w

    def int(self):
        return int(self.word())

    def f(self):
        return hex2f(self.word())

    def name(self):
        n = self.int()
        return ''.join(chr(self.int()) for _ in range(n))

    def more(self):
        return self.i < len(self.t)


def read_struct(r, kind):
    """kind 's' / 'i' (case line) or read the leading S / I token (result line)"""
    if kind == 's':
        v = r.word()
        var = None if v == '-' else chr(int(v))
        n = r.int()
        return ('s', [r.f() for _ in range(n)], var)
    nt = r.int()
    terms = []
    for _ in range(nt):
        c = r.f()
        nv = r.int()
        vs = []
        for _ in range(nv):
            nm = r.name()
            vs.append((nm, r.f()))
        terms.append((c, vs))
    nvars = r.int()
    return ('i', terms, [r.name() for _ in range(nvars)])


_CACHE = {}


def parse_case(case):
    hit = _CACHE.get(case.line)
    if hit is not None:
        return hit
    r = Rd(case.line.split())
    kind = r.word()
    st = read_struct(r, kind)
    src = r.name()
    nops = r.int()
    ops = []
    for _ in range(nops):
        o = r.word()
        ops.append((o, r.name()) if o in ('dm', 'im') else (o, None))
    fin = r.word()
    if fin == 'eu':
        n = r.int()
        final = ('eu', [r.f() for _ in range(n)])
    elif fin == 'em':
        k = r.int()
        bl = []
        for _ in range(k):
            nb = r.int()
            b = []
            for _ in range(nb):
                nm = r.name()
                b.append((nm, r.f()))
            bl.append(b)
        final = ('em', bl)
    elif fin == 'ai':
        final = ('ai', [r.f(), r.f(), r.f()])
    else:
        final = ('np' if fin == 'np' else 'none', None)
    res = (st, src, ops, final)
    if len(_CACHE) > 200000:
        _CACHE.clear()
    _CACHE[case.line] = res
    return res


def parse_result(line):
    """-> ('P', struct, [u1,u2,u3], [values]) | ('other', line)"""
    t = line.split()
    if not t or t[0] != 'P':
        return ('other', line)
    try:
        r = Rd(t)
        r.word()
        k = r.word()
        st = read_struct(r, 's' if k == 'S' else 'i')
        if r.word() != 'U':
            return ('other', line)
        u = [r.word(), r.word(), r.word()]
        if r.word() != 'E':
            return ('other', line)
        vals = []
        while r.more():
            vals.append(r.word())
        return ('P', st, u, vals)
    except (IndexError, ValueError):
        return ('other', line)


# ----------------------------------------------------------------- exact semantics (the specification)
def is_int(p):
    return p.denominator == 1


def pw(x, p):
    """x^p exactly for integral p; 60 significant digits otherwise (x > 0 required)"""
    if is_int(p):
        n = int(p)
        if n >= 0:
            return x ** n
        return Fr(1) / (x ** (-n))            # ZeroDivisionError at 0: outside the domain
    if x <= 0:
        raise ValueError('outside the domain')
    with localcontext() as ctx:
        ctx.prec = 60
        d = (Decimal(x.numerator) / Decimal(x.denominator)) ** (Decimal(p.numerator) / Decimal(p.denominator))
        return Fr(d)


def ex_inter(terms):
    return [(Fr(c), {n: Fr(e) for n, e in vs}) for c, vs in terms]


def letters_of(ex):
    s = set()
    for _, vs in ex:
        s.update(vs.keys())
    return sorted(s)


def ex_D(ex, v):
    out = []
    for c, vs in ex:
        if v not in vs:
            continue                           # terms without the variable vanish
        p = vs[v]
        if p == 0:
            continue                           # d/dv (c * v^0 * rest) = 0
        nv = dict(vs)
        if p - 1 == 0:
            del nv[v]                          # a variable reduced to power zero disappears
        else:
            nv[v] = p - 1
        out.append((c * p, nv))
    return out


def ex_I(ex, v):
    out = []
    for c, vs in ex:
        nv = dict(vs)
        if v in vs:
            p = vs[v]
            if p == -1:
                raise ValueError('exponent -1')
            nv[v] = p + 1
            out.append((c / (p + 1), nv))
        else:
            nv[v] = Fr(1)
            out.append((c, nv))
    return out


def ex_eval(ex, env):
    s = Fr(0)
    for c, vs in ex:
        t = c
        for n, p in vs.items():
            t *= pw(env[n], p)
        s += t
    return s


def ex_abs(ex, env):
    """sum of |terms| (float, slightly inflated): the scale of every rounding envelope"""
    s = 0.0
    for c, vs in ex:
        t = abs(float(c))
        for n, p in vs.items():
            x = abs(float(env[n]))
            if x == 0.0:
                t = 0.0 if p > 0 else t
            else:
                t *= x ** float(p)
        s += t
    return Fr(s) * Fr(101, 100) + Fr(1, 2 ** 1000)


def inter_chain(st, ops):
    """exact result of the chain on an 'i' structure -> (ex terms, variable list, error or None, last (op, variable))"""
    _, terms, vars_ = st
    ex = ex_inter(terms)
    vl = list(vars_)
    last = None
    for o, nm in ops:
        if o in ('du', 'iu'):
            if len(vl) > 1:
                return ex, vl, 'TooManyVariables', last
            v = vl[0] if vl else 'x'
        else:
            v = nm
        if o in ('du', 'dm'):
            ex = ex_D(ex, v)
            if o == 'dm':
                vl = letters_of(ex)
            last = ('d', v)
        else:
            ex = ex_I(ex, v)
            vl = letters_of(ex)
            last = ('i', v)
    return ex, vl, None, last


def own_name(nm, var):
    """var.chars().next() == self.variable"""
    return (nm[0] if nm else None) == var


def ambiguous_name(nm, var):
    """a by-name operation of the univariate type is specified for the polynomial's own variable (and documented to
    return a clone for a foreign one); a longer name that merely starts with the letter - or the empty name on a
    constant polynomial - is neither: the oracle accepts both answers"""
    if var is None:
        return nm == ''
    return len(nm) > 1 and nm[0] == var


def simple_chain(st, ops):
    """exact coefficient lists the chain may produce on an 's' structure -> [(coefs, kind of the last effective op)]"""
    _, coefs, var = st
    cands = [([Fr(c) for c in coefs], None)]
    for k, (o, nm) in enumerate(ops):
        out = []
        for cs, last in cands:
            by_name = o in ('dm', 'im')
            if by_name and ambiguous_name(nm, var) and k == len(ops) - 1:
                out.append((cs, None))
            elif by_name and not own_name(nm, var):
                out.append((cs, None))             # foreign name: a clone
                continue
            if o in ('du', 'dm'):
                out.append(([c * i for i, c in enumerate(cs)][1:], 'd'))
            else:
                out.append(([Fr(0)] + [c / (i + 1) for i, c in enumerate(cs)], 'i'))
        cands = out
    return cands


def s_eval(cs, x):
    return sum((c * x ** i for i, c in enumerate(cs)), Fr(0))


def s_abs(cs, x, extra=0):
    """sum_i |c_i x^i| * (2i + n + 3 + extra): rounding budget of the dense evaluation in units of eps"""
    n = len(cs)
    ax = abs(x)
    return sum((abs(c) * ax ** i * (2 * i + n + 3 + extra) for i, c in enumerate(cs)), Fr(0))


# ----------------------------------------------------------------- generator: sources and structures
def coef_str(rng, allow_frac):
    """(text without sign, sign, value as the parser computes it)"""
    k = rng.random()
    sign = rng.choice([1, 1, -1])
    if k < 0.15:
        return '', sign, float(sign)
    if allow_frac and k < 0.3:
        a, b = rng.randint(1, 12), rng.choice([2, 3, 4, 5, 7, 8, 10])
        txt = '%d/%d' % (a, b)
        val = float(('-' if sign < 0 else '') + str(a)) / float(b)
        return txt, sign, val
    if k < 0.65:
        txt = str(rng.randint(1, 60))
    else:
        txt = '%d.%s' % (rng.randint(0, 30), rng.choice(['5', '25', '1', '75', '125', '3', '05', '7']))
    return txt, sign, float(('-' if sign < 0 else '') + txt)


def join_terms(rng, parts):
    """parts: [(sign, body)] -> source text with the signs as the parsers expect them"""
    s = ''
    sp = rng.choice(['', ' ', ' ', '  '])
    for k, (sign, body) in enumerate(parts):
        if k == 0:
            s += ('-' if sign < 0 else '') + body
        else:
            s += sp + ('-' if sign < 0 else '+') + sp + body
    return s


def gen_simple(rng):
    cls = rng.choice(['dense'] * 6 + ['sparse', 'repeat', 'const', 'linear', 'unicode', 'high'] * 2 + ['empty'])
    if cls == 'empty':
        return cls, [0.0], None, ''
    var = rng.choice(LETTERS)
    if cls == 'unicode':
        var = rng.choice('λéßжΩñ')
    if cls == 'const':
        pows = [0] * rng.randint(1, 2)
    elif cls == 'linear':
        pows = rng.choice([[1], [1, 0], [0, 1]])
    elif cls == 'dense':
        d = rng.randint(1, 7)
        pows = list(range(d, -1, -1))
        if rng.random() < 0.3:
            rng.shuffle(pows)
    elif cls == 'sparse':
        pows = sorted(rng.sample(range(0, 13), rng.randint(1, 4)), reverse=True)
    elif cls == 'repeat':
        pows = [rng.randint(0, 5) for _ in range(rng.randint(2, 6))]
    elif cls == 'high':
        pows = [rng.randint(14, 30), rng.randint(0, 5)]
    else:
        pows = list(range(rng.randint(1, 5), -1, -1))
    parts, terms = [], []
    has_var = False
    for p in pows:
        txt, sign, val = coef_str(rng, False)
        if p == 0 and rng.random() < 0.8:
            if txt == '':
                txt = '1'
            body = txt
        else:
            has_var = True
            body = txt + var + ('' if p == 1 and rng.random() < 0.8 else '^%d' % p)
        parts.append((sign, body))
        terms.append((val, p))
    coefs = [0.0] * (max(p for _, p in terms) + 1)
    for val, p in terms:
        coefs[p] += val
    return cls, coefs, (var if has_var else None), join_terms(rng, parts)


EXP_INT_POS = ['', '', '2', '3', '4', '5', '6', '1', '2', '3']
EXP_INT_NEG = ['-2', '-3', '-1', '-4', '-2']
EXP_FRAC = ['1/2', '0.5', '3/2', '1/3', '2.5', '-1/2', '0.25', '-3/2', '2/3', '1.5', '-0.5', '5/2', '0.1', '-1/3']


def exp_val(txt):
    if txt == '':
        return 1.0
    if '/' in txt:
        a, b = txt.split('/')
        return float(a) / float(b)
    return float(txt)


def gen_inter(rng):
    cls = rng.choice(['const', 'uni_int', 'uni_int', 'uni_neg', 'uni_frac', 'multi_int', 'multi_int', 'multi_mixed',
                      'multi_mixed', 'repeat', 'zeroexp', 'uni_int0'] * 4 + ['empty'])
    if cls == 'empty':
        return cls, [], [], ''
    if cls == 'const':
        letters = []
    elif cls.startswith('uni'):
        letters = [rng.choice(LETTERS)]
    elif cls in ('repeat', 'zeroexp'):
        letters = rng.sample('xyzabt', rng.randint(1, 3))
    else:
        pool = rng.choice(['xyz', 'xyzw', 'abc', 'pqrs', 'xXyY', LETTERS])
        letters = rng.sample(pool, min(len(pool), rng.randint(2, 4) if cls == 'multi_mixed' else rng.randint(2, 3)))
    nterms = rng.randint(1, 2) if cls == 'const' else rng.randint(1, 5)
    parts, terms = [], []
    for _ in range(nterms):
        txt, sign, val = coef_str(rng, True)
        vs = []
        if cls == 'const':
            pass
        else:
            if cls.startswith('uni'):
                use = letters if rng.random() < 0.85 else []
            else:
                use = [l for l in letters if rng.random() < 0.6]
                rng.shuffle(use)
            if cls == 'repeat' and use:
                use = use + [rng.choice(use) for _ in range(rng.randint(1, 2))]
                rng.shuffle(use)
            for l in use:
                if cls in ('uni_int', 'multi_int', 'uni_int0'):
                    e = rng.choice(EXP_INT_POS)
                    if cls == 'uni_int0' and rng.random() < 0.3:
                        e = '0'
                elif cls == 'uni_neg':
                    e = rng.choice(EXP_INT_POS + EXP_INT_NEG * 2)
                elif cls == 'uni_frac':
                    e = rng.choice(EXP_FRAC * 2 + EXP_INT_POS)
                elif cls == 'repeat':
                    e = rng.choice(EXP_INT_POS + ['-1', '-2', '2'])
                elif cls == 'zeroexp':
                    e = rng.choice(['0', '0', '1', '2', ''])
                else:
                    e = rng.choice(EXP_INT_POS + EXP_INT_NEG + EXP_FRAC)
                vs.append((l, e))
        body = txt + ''.join(l + ('^' + e if e != '' else '') for l, e in vs)
        if body == '':
            body = '1'
        parts.append((sign, body))
        # the parser: stable sort by name, then merge equal neighbours adding the exponents left to right
        svs = sorted(((l, exp_val(e)) for l, e in vs), key=lambda t: t[0])
        merged = []
        for l, e in svs:
            if merged and merged[-1][0] == l:
                merged[-1] = (l, merged[-1][1] + e)
            else:
                merged.append((l, e))
        terms.append((val, merged))
    vars_ = sorted({l for _, vs in terms for l, _ in vs})
    return cls, terms, vars_, join_terms(rng, parts)


def var_domains(terms):
    """per letter: 'any' (non-negative integral exponents only), 'nonzero' (integral), 'pos' (otherwise)"""
    dom = {}
    for _, vs in terms:
        for l, e in vs:
            p = Fr(e)
            d = 'any' if (is_int(p) and p >= 0) else ('nonzero' if is_int(p) else 'pos')
            rank = {'any': 0, 'nonzero': 1, 'pos': 2}
            if rank[d] > rank[dom.get(l, 'any')]:
                dom[l] = d
            dom.setdefault(l, 'any')
    return dom


def pick_point(rng, d):
    mag = Fr(rng.randint(1, 48), 16) if rng.random() < 0.8 else Fr(rng.randint(1, 400), 128)
    if d == 'pos':
        return mag
    if d == 'nonzero':
        return mag * rng.choice([1, 1, -1])
    if rng.random() < 0.12:
        return Fr(0)
    return mag * rng.choice([1, 1, -1])


def pick_name(rng, letters, integrate):
    k = rng.random()
    absent = [l for l in 'xyzuvw' if l not in letters]
    if letters and k < 0.72:
        return rng.choice(letters)
    if k < 0.85:
        return rng.choice(absent)
    if k < 0.96:
        base = rng.choice(letters) if letters and rng.random() < 0.7 else rng.choice(absent)
        return base + rng.choice(['y', base, 'x1', 'yz'])
    return ''


def gen_ops_inter(rng, st, flavour, want_uni):
    """a chain of 1..3 operations that stays inside the domain (no integration of an exponent -1)"""
    depth = rng.choice([1, 1, 2, 2, 3])
    ops = []
    for k in range(depth):
        ex, vl, err, _ = inter_chain(st, ops)
        if err:
            break
        letters = letters_of(ex)
        first = k == 0
        for _attempt in range(8):
            if first:
                kind = 'd' if flavour == 'deriv' else 'i'
            else:
                kind = rng.choice(['d', 'i'])
            uni = len(vl) <= 1 and rng.random() < (0.75 if want_uni else 0.4)
            if len(vl) > 1 and rng.random() < 0.04:
                uni = True                     # deliberately: TooManyVariables expected
            if uni:
                op = ('du' if kind == 'd' else 'iu', None)
            else:
                op = ('dm' if kind == 'd' else 'im', pick_name(rng, letters, kind == 'i'))
            try:
                inter_chain(st, ops + [op])
            except ValueError:
                continue
            ops.append(op)
            break
    return ops


def enc_ops(ops):
    out = [str(len(ops))]
    for o, nm in ops:
        out.append(o)
        if nm is not None:
            out.append(enc_name(nm))
    return ' '.join(out)


def f_of(fr):
    v = float(fr)
    assert Fr(v) == fr
    return v


MAX_POWER = 65535          # spindalis_core::polynomials::simple::MAX_POWER: the largest exponent parse_simple_polynomial accepts


def extreme_cases(flavour):
    """deterministic: the extreme degrees the univariate parser can produce (dense vectors of 65535 / 65536 coefficients,
    about 1 MB per line).  Final action 'np': structure only.  Judged coefficient by coefficient."""
    def vec(terms):
        cs = [0.0] * (max(p for _, p in terms) + 1)
        for c, p in terms:
            cs[p] += c
        return cs
    top, below = MAX_POWER, MAX_POWER - 1
    cases = [('x^%d' % top, [(1.0, top)], [('du', None)]),
             ('3x^%d - x^%d + 1' % (top, below), [(3.0, top), (-1.0, below), (1.0, 0)], [('dm', 'x')]),
             ('2x^%d + x' % below, [(2.0, below), (1.0, 1)], [('iu', None)]),
             ('3x^%d - x^%d + 1' % (top, below), [(3.0, top), (-1.0, below), (1.0, 0)], [('iu', None), ('du', None)])]
    if flavour == 'integ':
        cases = cases[2:]
    for src, terms, ops in cases:
        line = 's %s %s %s np' % (enc_simple(vec(terms), 'x')[2:], cps(src), enc_ops(ops))
        yield Case(line, 'simple/extreme_degree', None)


def gen_cases(rng, tier, flavour):
    yield from extreme_cases(flavour)
    n_s = 800 if tier == 'quick' else 8000
    n_i = 2400 if tier == 'quick' else 24000
    for _ in range(n_s):
        cls, coefs, var, src = gen_simple(rng)
        st = ('s', coefs, var)
        depth = rng.choice([1, 1, 2, 3])
        ops = []
        for k in range(depth):
            kind = ('d' if flavour == 'deriv' else 'i') if k == 0 else rng.choice(['d', 'i'])
            r = rng.random()
            if r < 0.5:
                ops.append(('du' if kind == 'd' else 'iu', None))
            else:
                other = rng.choice([l for l in LETTERS if l != var])
                q = rng.random()
                if var is not None and q < 0.55:
                    nm = var                                  # its own variable
                elif q < 0.78:
                    nm = other                                # a foreign letter: a clone
                elif q < 0.88:
                    nm = other + rng.choice(['y', other, (var or 'z')])
                elif q < 0.93 and var is not None:
                    nm = ''
                elif k == depth - 1:
                    nm = (var + rng.choice(['y', var, 'x1'])) if var is not None else ''   # neither own nor foreign
                else:
                    nm = other
                ops.append(('dm' if kind == 'd' else 'im', nm))
        r = rng.random()
        if flavour == 'integ' and r < 0.45:
            a, b, c = [f_of(Fr(rng.randint(-48, 48), 16)) for _ in range(3)]
            if rng.random() < 0.1:
                c = a
            fin = 'ai %s %s %s' % (f2hex(a), f2hex(b), f2hex(c))
        elif r < 0.85:
            pts = [f_of(pick_point(rng, 'any')) for _ in range(3)]
            fin = 'eu %d %s' % (len(pts), ' '.join(f2hex(x) for x in pts))
        else:
            bl = []
            for _ in range(2):
                k = rng.choice([1, 1, 1, 2, 0])
                names = [rng.choice(['x', 'y', var or 'z']) for _ in range(k)]
                bl.append([(n, f_of(pick_point(rng, 'any'))) for n in names])
            fin = 'em %d %s' % (len(bl), ' '.join(
                ('%d %s' % (len(b), ' '.join('%s %s' % (enc_name(n), f2hex(v)) for n, v in b))).strip() for b in bl))
        line = 's %s %s %s %s' % (enc_simple(coefs, var)[2:], cps(src), enc_ops(ops), fin)
        yield Case(line, 'simple/' + cls, None)
    for _ in range(n_i):
        cls, terms, vars_, src = gen_inter(rng)
        st = ('i', terms, vars_)
        want_ai = flavour == 'integ' and len(vars_) <= 1 and rng.random() < 0.55
        ops = gen_ops_inter(rng, st, flavour, want_ai or rng.random() < 0.5)
        if want_ai and rng.random() < 0.5:
            ops = ops[:rng.choice([0, 1])]
        ex, vl, err, _ = inter_chain(st, ops)
        dom = var_domains(terms)
        letters = letters_of(ex)
        for l in letters:
            dom.setdefault(l, 'any')
        fin = None
        if err is None and want_ai and len(vl) <= 1:
            v = vl[0] if vl else 'x'
            ok = all(vs.get(v, Fr(0)) != -1 for _, vs in ex)
            d = dom.get(v, 'any')
            if ok:
                if d == 'any':
                    a, b, c = [Fr(rng.randint(-48, 48), 16) for _ in range(3)]
                else:
                    sgn = rng.choice([1, -1]) if d == 'nonzero' else 1
                    a, b, c = [sgn * Fr(rng.randint(2, 48), 16) for _ in range(3)]
                fin = 'ai %s %s %s' % tuple(f2hex(f_of(x)) for x in (a, b, c))
        if fin is None:
            if len(vl) <= 1 and rng.random() < 0.5 or rng.random() < 0.03:
                d = dom.get(vl[0], 'any') if vl else 'any'
                if len(vl) == 1 and vl[0] not in dom:
                    d = 'any'
                pts = [f_of(pick_point(rng, d)) for _ in range(3)]
                fin = 'eu %d %s' % (len(pts), ' '.join(f2hex(x) for x in pts))
            else:
                bl = []
                for j in range(3):
                    b = [(l, f_of(pick_point(rng, dom[l]))) for l in letters]
                    r = rng.random()
                    if j == 2 and r < 0.15 and b:
                        b.pop(rng.randrange(len(b)))                     # a missing binding
                    elif r < 0.3:
                        b.insert(rng.randrange(len(b) + 1), (rng.choice(['q', 'qq', 'k']), 1.5))   # unused binding
                    elif r < 0.4 and b:
                        n0, v0 = rng.choice(b)
                        b.insert(0, (n0, f_of(pick_point(rng, dom[n0]))))   # shadowed earlier binding
                    rng.shuffle(b) if r > 0.4 else None
                    bl.append(b)
                fin = 'em %d %s' % (len(bl), ' '.join(
                    ('%d %s' % (len(b), ' '.join('%s %s' % (enc_name(n), f2hex(v)) for n, v in b))).strip() for b in bl))
        line = 'i %s %s %s %s' % (enc_inter(terms, vars_)[2:], cps(src), enc_ops(ops), fin)
        yield Case(' '.join(line.split()), 'inter/' + cls, None)


def gen(rng, tier):
    return gen_cases(rng, tier, 'deriv')


# ----------------------------------------------------------------- oracle
def check_points(rng_seed, dom_letters):
    """deterministic rational test points for the structure-versus-exact-derivative comparison"""
    import random
    r = random.Random(rng_seed)
    pts = []
    for j in range(4):
        pts.append({l: (Fr(0) if (j == 3 and d == 'any') else pick_point(r, d if d != 'any' or j < 2 else 'nonzero'))
                    for l, d in dom_letters.items()})
    return pts


def lnabs(x):
    x = abs(float(x))
    return 0.0 if x == 0.0 else abs(math.log(x))


def judge_inter(st, src, ops, final, res):
    ex, vl, err, last = inter_chain(st, ops)
    if err:
        return None if res == ('other', 'err ' + err) else 'operation on more than one variable through a univariate entry point did not answer TooManyVariables: ' + str(res[1])[:60]
    if res[0] != 'P':
        return 'no polynomial returned: ' + str(res[1])[:60]
    _, (k, rterms, rvars), u, vals = res
    if k != 'i':
        return 'wrong kind of polynomial returned'
    # -- well-formedness of the returned structure
    used = set()
    for c, vs in rterms:
        names = [n for n, _ in vs]
        if any(not (a < b) for a, b in zip(names, names[1:])):
            return 'a term of the result does not list distinct variables in sorted order'
        used.update(names)
    if any(not (a < b) for a, b in zip(rvars, rvars[1:])):
        return 'variable list of the result is not sorted and duplicate-free'
    if not used <= set(rvars):
        return 'variable list of the result misses a variable used in a term'
    if (not ops or ops[-1][0] != 'du') and set(rvars) != used:
        return 'variable list of the result is not the set of variables used'
    # -- usable through the univariate entry points
    if len(rvars) <= 1 and u != ['ok', 'ok', 'ok']:
        return 'result with at most one variable is refused by a univariate entry point: ' + ' '.join(u)
    # -- shape clauses of the last operation
    if len(rterms) > len(ex):
        return 'terms that do not contain the variable (or have exponent 0 in it) did not vanish'
    if last and last[0] == 'd':
        for c, vs in rterms:
            if any(n == last[1] and e == 0.0 for n, e in vs):
                return 'a variable reduced to power zero did not disappear from its term'
    if last and last[0] == 'i':
        for c, vs in rterms:
            if not any(n == last[1] for n, _ in vs):
                return 'a term of the indefinite integral does not contain the integration variable (constant of integration not zero)'
    # -- the returned structure evaluates to the exact derivative / integral of the source
    dom = var_domains(st[1])
    for l in set(letters_of(ex)) | used:
        dom.setdefault(l, 'any')
    rex = ex_inter(rterms)
    depth = max(1, len(ops))
    for env in check_points(31 * sum(map(ord, src)) + len(ops), dom):
        try:
            want = ex_eval(ex, env)
        except (ZeroDivisionError, ValueError):
            continue
        try:
            got = ex_eval(rex, env)
        except (ZeroDivisionError, ValueError):
            return 'result is undefined at a point of the domain of the exact result'
        sens = 2 + sum((1 + abs(float(p))) * lnabs(env[n]) for _, vs in ex for n, p in vs.items())
        tol = (ex_abs(ex, env) + ex_abs(rex, env)) * depth * Fr(int(sens) + 2) * 2 * EPS
        if abs(got - want) > tol:
            return 'result does not evaluate to the exact %s of the source' % ('derivative' if last and last[0] == 'd' else 'result of the chain')
    # -- final action
    return judge_final_inter(rex, rterms, rvars, final, vals)


def judge_final_inter(rex, rterms, rvars, final, vals):
    kind, arg = final
    if kind == 'none':
        return None
    nt = len(rterms)
    nv = sum(len(vs) for _, vs in rterms)
    if kind in ('eu', 'em'):
        envs = []
        if kind == 'eu':
            for x in arg:
                envs.append(None if len(rvars) > 1 else ({rvars[0]: Fr(x)} if rvars else {}))
        else:
            for b in arg:
                envs.append({n: Fr(v) for n, v in b})   # later bindings replace earlier ones
        if len(vals) != len(envs):
            return 'malformed output'
        for env, tok in zip(envs, vals):
            if env is None:
                if tok != 'err:TooManyVariables':
                    return 'eval_univariate of several variables did not answer TooManyVariables'
                continue
            missing = any(n not in env for _, vs in rterms for n, _ in vs)
            if missing:
                if tok != 'err:VariableNotFound':
                    return 'evaluation with an unbound variable did not answer VariableNotFound'
                continue
            if not is_hexfloat(tok) or tok == 'nan':
                return 'evaluation inside the domain gave ' + tok
            try:
                want = ex_eval(rex, env)
            except (ZeroDivisionError, ValueError):
                continue
            tol = ex_abs(rex, env) * (2 * nv + nt + 4) * EPS
            v = hex2f(tok)
            if math.isinf(v) or abs(Fr(v) - want) > tol:
                return 'value of the result differs from its exact value beyond the rounding envelope'
        return None
    if kind == 'ai':
        a, b, c = [Fr(x) for x in arg]
        if len(vals) != 4:
            return 'malformed output'
        if len(rvars) > 1:
            return None if all(t == 'err:TooManyVariables' for t in vals) else 'analytical_integral of several variables did not answer TooManyVariables'
        v = rvars[0] if rvars else 'x'
        F = ex_I(rex, v)

        def exact(lo, hi):
            return ex_eval(F, {v: hi}) - ex_eval(F, {v: lo})

        # a non-integral exponent p + 1 of F is itself rounded: relative effect |p + 1| * |ln x| * eps on the term
        frac_exps = [abs(float(p)) for _, vs in F for p in vs.values() if not is_int(p)]

        def env(lo, hi):
            sens = int(sum((1 + q) * max(lnabs(lo), lnabs(hi)) for q in frac_exps)) + (1 if frac_exps else 0)
            return (ex_abs(F, {v: lo}) + ex_abs(F, {v: hi})) * (2 * nv + nt + 8 + sens) * EPS
        got = []
        for tok in vals:
            if not is_hexfloat(tok) or tok == 'nan':
                return 'analytical_integral inside the domain gave ' + tok
            got.append(Fr(hex2f(tok)))
        pairs = [(a, b), (a, c), (c, b), (b, a)]
        for g, (lo, hi) in zip(got, pairs):
            if abs(g - exact(lo, hi)) > env(lo, hi):
                return 'analytical_integral differs from the exact integral beyond the rounding envelope'
        if abs(got[1] + got[2] - got[0]) > env(a, c) + env(c, b) + env(a, b):
            return 'analytical_integral is not additive over adjacent intervals'
        if abs(got[3] + got[0]) > env(a, b) + env(b, a):
            return 'analytical_integral does not change sign when the bounds are swapped'
        return None
    return 'unknown final action'


def judge_simple(st, src, ops, final, res):
    if res[0] != 'P':
        return 'no polynomial returned: ' + str(res[1])[:60]
    _, (k, rcoefs, rvar), u, vals = res
    if k != 's':
        return 'wrong kind of polynomial returned'
    if rvar != st[2]:
        return 'the variable of the result is not the variable of the source'
    if final[0] != 'np' and u != ['ok', 'ok', 'ok']:
        return 'result is refused by a univariate entry point: ' + ' '.join(u)
    rcs = [Fr(c) for c in rcoefs]
    if any(math.isinf(c) or c != c for c in rcoefs):
        return 'non-finite coefficient'
    depth = max(1, len(ops))

    def structure(cs, last):
        if max(len(cs), len(rcs)) > 2000:
            # dense vectors determine the polynomial: compare coefficient by coefficient (exact for integers)
            n = max(len(cs), len(rcs))
            for k in range(n):
                w = cs[k] if k < len(cs) else Fr(0)
                g = rcs[k] if k < len(rcs) else Fr(0)
                if w != g and abs(w - g) > abs(w) * depth * 2 * EPS:
                    return 'coefficient %d of the result is not the exact coefficient of the %s' % (k, 'derivative' if last == 'd' else 'result of the chain')
            if last == 'i' and (not rcs or rcs[0] != 0):
                return 'constant of integration is not zero'
            return None
        for x in (Fr(0), Fr(1), Fr(-1), Fr(3, 2), Fr(-5, 4), Fr(2), Fr(1, 3), Fr(-7, 3)):
            want, got = s_eval(cs, x), s_eval(rcs, x)
            tol = (sum(abs(c) * abs(x) ** i for i, c in enumerate(cs)) + sum(abs(c) * abs(x) ** i for i, c in enumerate(rcs))) * depth * 2 * EPS
            if abs(want - got) > tol:
                return 'result does not evaluate to the exact %s of the source' % ('derivative' if last == 'd' else 'result of the chain')
        if last == 'i' and rcs and rcs[0] != 0:
            return 'constant of integration is not zero'
        if last == 'i' and not rcs:
            return 'indefinite integral has no coefficients'
        return None
    verdicts = [structure(cs, last) for cs, last in simple_chain(st, ops)]
    if all(verdicts):
        return verdicts[-1]
    kind, arg = final
    if kind in ('none', 'np'):
        return None
    if kind in ('eu', 'em'):
        if kind == 'eu':
            xs = [Fr(x) for x in arg]
        else:
            xs = []
            for b in arg:
                d = {n: v for n, v in b}
                xs.append(Fr(list(d.values())[0]) if len(d) == 1 else None)
        if len(vals) != len(xs):
            return 'malformed output'
        for x, tok in zip(xs, vals):
            if x is None:
                if tok != 'err:TooManyVariables':
                    return 'eval_multivariate with other than one binding did not answer TooManyVariables'
                continue
            if not is_hexfloat(tok) or tok == 'nan':
                return 'evaluation gave ' + tok
            v = hex2f(tok)
            if math.isinf(v) or abs(Fr(v) - s_eval(rcs, x)) > s_abs(rcs, x) * EPS + Fr(1, 2 ** 1000):
                return 'value of the result differs from its exact value beyond the rounding envelope'
        return None
    if kind == 'ai':
        a, b, c = [Fr(x) for x in arg]
        F = [Fr(0)] + [cc / (i + 1) for i, cc in enumerate(rcs)]

        def exact(lo, hi):
            return s_eval(F, hi) - s_eval(F, lo)

        def env(lo, hi):
            return (s_abs(F, lo, 3) + s_abs(F, hi, 3)) * EPS + Fr(1, 2 ** 1000)
        if len(vals) != 4:
            return 'malformed output'
        got = []
        for tok in vals:
            if not is_hexfloat(tok) or tok == 'nan':
                return 'analytical_integral gave ' + tok
            got.append(Fr(hex2f(tok)))
        pairs = [(a, b), (a, c), (c, b), (b, a)]
        for g, (lo, hi) in zip(got, pairs):
            if abs(g - exact(lo, hi)) > env(lo, hi):
                return 'analytical_integral differs from the exact integral beyond the rounding envelope'
        if abs(got[1] + got[2] - got[0]) > env(a, c) + env(c, b) + env(a, b):
            return 'analytical_integral is not additive over adjacent intervals'
        if abs(got[3] + got[0]) > env(a, b) + env(b, a):
            return 'analytical_integral does not change sign when the bounds are swapped'
        return None
    return 'unknown final action'


def judge(case, impl):
    st, src, ops, final = parse_case(case)
    if impl == 'panic' or impl.startswith('abort'):
        return 'panic'
    if impl.startswith('parse-error') or impl.startswith('parse-mismatch'):
        return 'the parser does not produce the structure the source denotes: ' + impl[:80]
    res = parse_result(impl)
    if st[0] == 's':
        return judge_simple(st, src, ops, final, res)
    return judge_inter(st, src, ops, final, res)


# ----------------------------------------------------------------- correspondence
def compare(case, impl, model):
    if impl == model:
        return True
    st, src, ops, final = parse_case(case)
    ri, rm = parse_result(impl), parse_result(model)
    if ri[0] != 'P' or rm[0] != 'P':
        return False
    ti, tm = impl.split(), model.split()
    ei, em = ti.index('E'), tm.index('E')
    if ei != em or len(ti) != len(tm):
        return False
    # structure and usability flags: exact (coefficients and exponents bit for bit, signed zeros identified)
    for a, b in zip(ti[:ei], tm[:em]):
        if a != b and not (len(a) == 16 and same_float_tok(a, b)):
            return False
    vi, vm = ti[ei + 1:], tm[em + 1:]
    if st[0] == 's':
        return all(same_float_tok(a, b) for a, b in zip(vi, vm))   # powi is modelled exactly
    _, (k, rterms, rvars), _, _ = ri
    rex = ex_inter(rterms)
    frac = any(not is_int(p) or abs(p) >= 2 ** 31 for _, vs in rex for p in vs.values())
    nv = sum(len(vs) for _, vs in rterms)
    pmax = sum(abs(float(p)) for _, vs in rex for p in vs.values())
    budget = Fr(int(8 + 4 * nv + len(rterms) + 4 * pmax)) * EPS
    kind, arg = final
    for j, (a, b) in enumerate(zip(vi, vm)):
        if a == b:
            continue
        if a.startswith('err') or b.startswith('err'):
            return False
        if frac:
            continue                          # powf with a non-integral exponent is not modelled: the oracle decides
        if a == 'nan' or b == 'nan':
            return False
        try:
            if kind == 'eu':
                envs = [{rvars[0]: Fr(arg[j])} if rvars else {}]
                sc = ex_abs(rex, envs[0])
            elif kind == 'em':
                sc = ex_abs(rex, {n: Fr(v) for n, v in arg[j]})
            else:
                v = rvars[0] if rvars else 'x'
                F = ex_I(rex, v)
                lo, hi = [(arg[0], arg[1]), (arg[0], arg[2]), (arg[2], arg[1]), (arg[1], arg[0])][j]
                sc = ex_abs(F, {v: Fr(lo)}) + ex_abs(F, {v: Fr(hi)})
        except (KeyError, ValueError, ZeroDivisionError, IndexError):
            return False
        if abs(Fr(hex2f(a)) - Fr(hex2f(b))) > sc * budget:
            return False
    return True


def nontrivial(case, impl):
    st, src, ops, final = parse_case(case)
    if st[0] == 's':
        return len(st[1]) >= 2 and len(ops) >= 1
    return any(vs for _, vs in st[1]) and len(ops) >= 1


def describe(case):
    st, src, ops, final = parse_case(case)
    return {'type': 'SimplePolynomial' if st[0] == 's' else 'IntermediatePolynomial', 'source': src,
            'operations': [o if n is None else '%s(%r)' % (o, n) for o, n in ops],
            'final': final[0], 'final_args': [str(x)[:60] for x in (final[1] or [])][:4]}


# ---- extraction cross-check: the same cases evaluated inside Coq by vm_compute  (shared with c04.py)
# The driver ocaml/c03.ml applies a chain of operations to the polynomial, then prints the resulting structure, three
# 'does it work' probes (U) and a list of values (E); any Err in the chain ends the line with 'err K', any Panic
# anywhere makes the whole line 'panic'.  The Coq term below does the same with the same instances as P03.v / P04.v.
from tools import xenc
COQ_IMPORTS = 'Base.XEnc Model.Poly Model.Definite'
XCHECK_N = 200


def _x_env(t):
    b = []
    for _ in range(t.int()):
        nm = t.cpstr()
        b.append('(%s, %s%%float)' % (xenc.cq_str(nm), xenc.coq_float(t.fl())))
    return '[%s]' % '; '.join(b)


def coq_term(case):
    if not xenc.keep(case, 22):
        return None
    t = xenc.Toks(case.line)
    ty = t.word()
    if ty == 's':
        v = t.word()
        cs = t.fvec()
        if len(cs) > 2000:
            return None
        p0 = '{| s_coefs := %s; s_var := %s |}' % (xenc.cq_floats(cs), 'None' if v == '-' else 'Some %d%%N' % int(v))
        encp = xenc.CQ_ENC_SPOLY
    elif ty == 'i':
        p0 = xenc.cq_ipoly_rec(t)
        # the driver's show_i has no '|' separator, the integer encoding is the same as for the parsers' output
        encp = xenc.CQ_ENC_IPOLY
    else:
        return None
    t.cpstr()                                            # the source text is used by the Rust side only
    fn = lambda name: '(@%s_%s float FNum)' % (ty, name)
    chain = 'Ok p'
    ops = []
    for _ in range(t.int()):
        w = t.word()
        if w == 'du':
            ops.append('%s p' % fn('derivate_univariate'))
        elif w == 'iu':
            ops.append('%s p' % fn('integral_univariate'))
        elif w == 'dm':
            ops.append('Ok (%s p %s)' % (fn('derivate_multivariate'), xenc.cq_str(t.cpstr())))
        elif w == 'im':
            ops.append('Ok (%s p %s)' % (fn('integral_multivariate'), xenc.cq_str(t.cpstr())))
        else:
            return None
    for o in reversed(ops):
        chain = 'bind (%s) (fun p => %s)' % (o, chain)
    fin = t.word()
    F = lambda x: xenc.coq_float(x) + '%float'
    if fin == 'none':
        vals = []
    elif fin == 'eu':
        vals = ['%s p %s' % (fn('eval_univariate'), F(x)) for x in t.fvec()]
    elif fin == 'em':
        vals = ['%s p %s' % (fn('eval_multivariate'), _x_env(t)) for _ in range(t.int())]
    elif fin == 'ai':
        a, b, c = F(t.fl()), F(t.fl()), F(t.fl())
        vals = ['%s p %s %s' % (fn('analytical_integral'), lo, hi) for lo, hi in ((a, b), (a, c), (c, b), (b, a))]
    else:
        return None
    return ('(let okerr := fun (A : Type) (r : res A) => enc_res (fun _ => []) r in '
            'match (fun p => %s) %s with '
            '| Ok p => let parts := [okerr _ (%s p 0x1p-1%%float); okerr _ (%s p); okerr _ (%s p)] ++ map (enc_res enc_float) [%s] in '
            'if existsb (fun l => match l with [2] => true | _ => false end) parts then [2] else 0 :: %s p ++ concat parts '
            '| Err e => [1; err_code e] | Panic _ => [2] end)'
            % (chain, p0, fn('eval_univariate'), fn('derivate_univariate'), fn('integral_univariate'), '; '.join(vals), encp))


def encode_result(case, model_line):
    t = model_line.split()
    if t[0] == 'panic':
        return [2]
    if t[0] == 'err':
        return [1, xenc.err_code(t[1])]
    if t[0] != 'P':
        return [-99]
    u = t.index('U')
    body = t[2:u]
    if t[1] == 'S':
        out = [0] + xenc.enc_spoly_toks(body)
    else:
        # I nt {coef nv {cps e}} nvars {cps}: re-insert the '|' that show_inter of the parser drivers prints
        k = [0]

        def nxt():
            k[0] += 1
            return body[k[0] - 1]
        for _ in range(int(nxt())):
            nxt()
            for _ in range(int(nxt())):
                for _ in range(int(nxt())):
                    nxt()
                nxt()
        out = [0] + xenc.enc_ipoly_toks(body[:k[0]] + ['|'] + body[k[0]:])
    assert t[u + 4] == 'E', model_line
    for x in t[u + 1:u + 4]:
        out += [0] if x == 'ok' else [1, xenc.err_code(x[4:])]
    for x in t[u + 5:]:
        out += xenc.res_tok(x)
    return out
