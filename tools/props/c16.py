# C16 — parsers are total, and acceptance implies fidelity.
# Generator: exhaustive strings over the 15-symbol alphabet of the property's quantifier up to a
# length bound, plus mutations of grammatical strings with arbitrary (table-classified) Unicode.
# Oracle (independent of the Coq model): a recogniser/evaluator of the documented grammars written
# with regular expressions, and a conventional arithmetic reader for accepted text outside them.
import itertools, re
from fractions import Fraction
from tools.lib import Case, cps, hex2f

ID = 'C16'
ALPHABET = 'xy230.^+-/*() #'
EPS = Fraction(1, 2 ** 52)
RULE = ('exhaustive: every string over {x,y,2,3,0,.,^,+,-,/,*,(,),space,#} up to length L (quick L=4, thorough L=5) '
        'plus a random sample of lengths L+1..7, for both parsers; mutation stream: grammatical strings with random '
        'insertions/deletions/substitutions drawn from ASCII and the classified Unicode table, lengths to 64; '
        'distinct = distinct (parser, text); non-trivial = text the implementation accepts, or text of length >= 3 it rejects')
TRUSTED = ['extraction of the float instance of Model/Parse.v and ocaml/c16.ml', 'Rust harness harness/src/bin/c16.rs',
           'regular-expression recogniser of the documented grammars and the conventional reader in tools/props/c16.py',
           'Unicode classes outside U+0000..U+00FF only for the code points of Base/Str.v tab_alphabetic / tab_numeric '
           '(measured against char::is_alphabetic / is_numeric / is_whitespace on every run)']
ASSUMPTIONS = ['generated non-ASCII characters come only from the classified table, so model and implementation classify them identically',
               'allocation failure (abort) is outside the model; the exponent cap MAX_POWER keeps the dense vector small']
PROFILES = {'quick': ['debug'], 'thorough': ['debug', 'release']}
EXHAUSTIVE = True

TAB_ALPHA = [170, 181, 186, 223, 233, 241, 252, 960, 964, 981, 937, 945, 1078, 1488, 20013, 12354, 8450, 8544, 12295]
TAB_NUM = [178, 179, 185, 188, 189, 190, 1635, 2406, 8544, 9312, 65297, 12295]
TAB_WS = [9, 10, 11, 12, 13, 32, 133, 160, 5760, 8192, 8195, 8202, 8232, 8233, 8239, 8287, 12288]
CLASS_CPS = list(range(1, 256)) + TAB_ALPHA + TAB_NUM + TAB_WS + [0x200b, 0x2060, 0xfeff]

GRAMMATICAL = ['3x^2+2x-5', '-x + 4', '007y^02 - .5y+3.', 'x^3 - x', '2.5', '-.5z^10+z', '3/4x^2y^-1/2 - yx',
               '5x^0.5', 'x^1/2+y', '-2a^2b+3', 'x^-2y^3 - 1/3', '12x^12+x^0', '4x^2y^3', 'q']


def is_alpha(c):
    o = ord(c)
    return (65 <= o <= 90) or (97 <= o <= 122) or (192 <= o <= 255 and o not in (215, 247)) or o in TAB_ALPHA


def is_ws(c):
    return ord(c) in (9, 10, 11, 12, 13, 32, 133, 160, 5760, 8232, 8233, 8239, 8287, 12288) or 8192 <= ord(c) <= 8202


def strip_ws(s):
    return ''.join(c for c in s if not is_ws(c))


def gen(rng, tier):
    yield Case('classes ' + cps(''.join(chr(c) for c in CLASS_CPS)), 'classes', None)
    L = 4 if tier == 'quick' else 5
    for n in range(0, L + 1):
        for t in itertools.product(ALPHABET, repeat=n):
            s = ''.join(t)
            yield Case('simple ' + cps(s), 'exh%d' % n, s)
            yield Case('inter ' + cps(s), 'exh%d' % n, s)
    nsample = 6000 if tier == 'quick' else 120000
    for _ in range(nsample):
        n = rng.randint(L + 1, 7)
        # bias towards characters that form terms
        s = ''.join(rng.choice(ALPHABET + 'xx22^^++--') for _ in range(n))
        yield Case('simple ' + cps(s), 'sample', s)
        yield Case('inter ' + cps(s), 'sample', s)
    nmut = 3000 if tier == 'quick' else 40000
    pool = ALPHABET + 'abzXe1456789@!_=,' + ''.join(chr(c) for c in TAB_ALPHA + TAB_NUM + TAB_WS)
    for _ in range(nmut):
        s = list(rng.choice(GRAMMATICAL))
        # grow some strings by concatenating terms
        for _ in range(rng.randint(0, 4)):
            s += list(rng.choice(['+', '-', ' + ', ' - '])) + list(rng.choice(GRAMMATICAL))
        for _ in range(rng.randint(1, 3)):
            k = rng.randint(0, len(s))
            r = rng.random()
            if r < 0.4:
                s.insert(k, rng.choice(pool))
            elif r < 0.7 and s:
                del s[min(k, len(s) - 1)]
            elif s:
                s[min(k, len(s) - 1)] = rng.choice(pool)
        s = ''.join(s)[:64]
        yield Case('simple ' + cps(s), 'mutation', s)
        yield Case('inter ' + cps(s), 'mutation', s)
    # huge exponents and long digit strings
    for e in ['18446744073709551615', '18446744073709551616', '99999999999', '65535', '65536', '0' * 40 + '7', '4294967296']:
        yield Case('simple ' + cps('x^' + e), 'bigexp', 'x^' + e)
        yield Case('inter ' + cps('x^' + e), 'bigexp', 'x^' + e)
    big = '9' * 308
    for s in ['1' * 400 + 'x', '0.' + '0' * 400 + '1x', 'x' * 64, '+' * 64, '-' * 63 + 'x', '(' * 64,
              big + 'x+' + big + 'x', big + 'x-' + big + 'x', big + '+' + big, big + '/.1x', big + '/' + big + '0x', '1/' + '1' * 400 + 'x',
              'x^' + big + 'x^' + big, 'x^' + '1' * 400, 'x^1/' + '1' * 400, 'x^' + big + '/.1', '-' + '1' * 400]:
        yield Case('simple ' + cps(s), 'long', s)
        yield Case('inter ' + cps(s), 'long', s)


def describe(case):
    return {'parser': case.line.split(' ', 1)[0], 'text': case.meta if isinstance(case.meta, str) else None}


def nontrivial(case, impl):
    return impl.startswith('ok') or (isinstance(case.meta, str) and len(case.meta) >= 3)


# ---------------------------------------------------------------- documented grammars (regex)
DEC = r'(?:[0-9]+\.?[0-9]*|\.[0-9]+)'


def dec_val(t):
    if '.' in t:
        a, b = t.split('.')
        return Fraction(int((a + b) or '0'), 10 ** len(b))
    return Fraction(int(t))


def split_terms(s):
    """'[+-]?T([+-]T)*' -> list of (sign, text); None if an operator is doubled/dangling.
    A '-' directly after '^' belongs to an exponent (multivariate grammar)."""
    terms, cur, sign = [], '', 1
    i = 0
    if s and s[0] in '+-':
        sign = -1 if s[0] == '-' else 1
        i = 1
    while i < len(s):
        c = s[i]
        if c in '+-' and not (c == '-' and i > 0 and s[i - 1] == '^'):
            if cur == '':
                return None
            terms.append((sign, cur))
            cur, sign = '', (-1 if c == '-' else 1)
        else:
            cur += c
        i += 1
    if cur == '':
        return None if (terms or s) else []
    terms.append((sign, cur))
    return terms


def read_simple(s):
    """documented univariate language -> (variable or None, {power: exact coefficient}) or None"""
    s = strip_ws(s)
    terms = split_terms(s)
    if terms is None:
        return None
    var = next((c for c in s if is_alpha(c)), None)
    out = {}
    for sign, t in terms:
        if var is not None and var in t:
            m = re.fullmatch(r'(%s)?%s(?:\^([0-9]+))?' % (DEC, re.escape(var)), t)
            if not m:
                return None
            coef = dec_val(m.group(1)) if m.group(1) else Fraction(1)
            power = int(m.group(2)) if m.group(2) is not None else 1
        else:
            if not re.fullmatch(DEC, t):
                return None
            coef, power = dec_val(t), 0
        out.setdefault(power, []).append(sign * coef)
    return var, out


def read_inter(s):
    """documented multivariate language -> list of (exact coefficient, {letter: exact exponent}) or None"""
    s = strip_ws(s)
    terms = split_terms(s)
    if terms is None:
        return None
    res = []
    for sign, t in terms:
        m = re.fullmatch(r'(%s(?:/%s)?)?((?:[A-Za-z](?:\^-?%s(?:/%s)?)?)*)' % (DEC, DEC, DEC, DEC), t)
        if not m or t == '':
            return None
        coef = Fraction(1)
        if m.group(1):
            if '/' in m.group(1):
                a, b = m.group(1).split('/')
                if dec_val(b) == 0:
                    return None
                coef = dec_val(a) / dec_val(b)
            else:
                coef = dec_val(m.group(1))
        vars_ = {}
        for vm in re.finditer(r'([A-Za-z])(?:\^(-?)(%s)(?:/(%s))?)?' % (DEC, DEC), m.group(2)):
            e = Fraction(1)
            if vm.group(3) is not None:
                e = dec_val(vm.group(3))
                if vm.group(4) is not None:
                    if dec_val(vm.group(4)) == 0:
                        return None
                    e = e / dec_val(vm.group(4))
                if vm.group(2) == '-':
                    e = -e
            vars_[vm.group(1)] = vars_.get(vm.group(1), Fraction(0)) + e
        res.append((sign * coef, vars_))
    return res


# ---------------------------------------------------------------- conventional reader (outside the grammars)
class NoReading(Exception):
    pass


def conventional(s):
    """numbers, single-letter variables, + - * / ^ (left-assoc ^ chains are ambiguous: rejected), unary
    minus, parentheses, juxtaposition as product.  Returns f(env) -> Fraction; raises NoReading."""
    toks = []
    i = 0
    s = strip_ws(s)
    while i < len(s):
        c = s[i]
        m = re.match(DEC, s[i:])
        if m:
            toks.append(('n', dec_val(m.group(0))))
            i += len(m.group(0))
        elif c.isalpha() and ord(c) < 128:
            toks.append(('v', c)); i += 1
        elif c in '+-*/^()':
            toks.append((c, c)); i += 1
        else:
            raise NoReading('symbol %r' % c)
    pos = [0]

    def peek():
        return toks[pos[0]][0] if pos[0] < len(toks) else None

    def take():
        pos[0] += 1
        return toks[pos[0] - 1]

    def atom():
        k = peek()
        if k == 'n':
            v = take()[1]
            return lambda env: v
        if k == 'v':
            name = take()[1]
            return lambda env: env[name]
        if k == '(':
            take()
            e = expr()
            if peek() != ')':
                raise NoReading('unbalanced')
            take()
            return e
        raise NoReading('atom expected')

    def power():
        b = atom()
        if peek() == '^':
            take()
            neg = False
            if peek() == '-':
                take(); neg = True
            e = atom()
            if peek() == '^':
                raise NoReading('ambiguous ^ chain')

            def f(env, b=b, e=e, neg=neg):
                ev = e(env)
                if ev.denominator != 1:
                    raise NoReading('non-integer exponent')
                ev = -ev if neg else ev
                bv = b(env)
                if bv == 0 and ev <= 0:
                    raise NoReading('undefined')
                return bv ** int(ev)
            return f
        return b

    def juxt():
        f = power()
        while peek() in ('n', 'v', '('):
            g = power()
            f = (lambda env, f=f, g=g: f(env) * g(env))
        return f

    def unary():
        if peek() == '-':
            take()
            f = unary()
            return lambda env: -f(env)
        if peek() == '+':
            take()
            return unary()
        return juxt()

    def prod():
        f = unary()
        while peek() in ('*', '/'):
            op = take()[0]
            g = unary()
            if op == '*':
                f = (lambda env, f=f, g=g: f(env) * g(env))
            else:
                def h(env, f=f, g=g):
                    d = g(env)
                    if d == 0:
                        raise NoReading('undefined')
                    return f(env) / d
                f = h
        return f

    def expr():
        f = prod()
        while peek() in ('+', '-'):
            op = take()[0]
            g = prod()
            f = (lambda env, f=f, g=g, op=op: f(env) + g(env) if op == '+' else f(env) - g(env))
        return f

    if not toks:
        return lambda env: Fraction(0)
    e = expr()
    if pos[0] != len(toks):
        raise NoReading('trailing tokens')
    return e


FMAX = Fraction(2) ** 1024 - Fraction(2) ** 970
POINTS = [Fraction(3, 2), Fraction(-5, 3), Fraction(7, 4)]


def close(v, exact, terms_abs, n):
    """float v against an exact value, envelope (n+2)*eps*sum|terms|"""
    return abs(Fraction(v) - exact) <= (n + 2) * EPS * terms_abs + Fraction(1, 2 ** 1070)


def judge(case, impl):
    if case.cls == 'classes':
        return None
    if impl == 'panic' or impl.startswith('abort'):
        return 'the parser panicked instead of returning a value or an error'
    if impl.startswith('err '):
        return None                       # rejecting is always allowed by C16
    if not impl.startswith('ok'):
        return 'malformed harness output: ' + impl[:60]
    text = case.meta
    t = impl.split()
    kind = case.line.split(' ', 1)[0]
    if kind == 'simple':
        var = None if t[1] == '-' else chr(int(t[1]))
        n = int(t[2])
        coefs = [hex2f(h) for h in t[3:3 + n]]
        g = read_simple(text)
        if any(c != c or c in (float('inf'), float('-inf')) for c in coefs):
            return 'accepted text produced a non-finite coefficient'
        if g is not None:
            gvar, powers = g
            for k, c in enumerate(coefs):
                addends = powers.get(k, [])
                exact = sum(addends, Fraction(0))
                if not close(c, exact, sum(abs(a) for a in addends), len(addends)):
                    return 'coefficient of power %d differs from the documented reading of the text' % k
            if any(k >= len(coefs) for k in powers):
                return 'a power present in the text is missing from the polynomial'
            return None
        # accepted text outside the documented language: it must have a conventional reading with the same values
        try:
            f = conventional(text)
            for x in POINTS:
                env = {chr(c): x for c in range(65, 123)}
                exact = f(env)
                val = sum((Fraction(c) * x ** k for k, c in enumerate(coefs)), Fraction(0))
                scale = sum((abs(Fraction(c)) * abs(x) ** k for k, c in enumerate(coefs)), Fraction(0)) + abs(exact)
                if abs(val - exact) > 64 * EPS * scale:
                    return 'accepted text outside the documented grammar is read with a different value than its conventional reading'
            return None
        except NoReading as e:
            return 'accepted text that has no arithmetic reading (%s): characters were dropped or misread' % e
    else:
        nterms = int(t[1])
        k = 2
        terms = []
        for _ in range(nterms):
            coef = hex2f(t[k]); nv = int(t[k + 1]); k += 2
            vs = []
            for _ in range(nv):
                ln = int(t[k]); name = ''.join(chr(int(x)) for x in t[k + 1:k + 1 + ln]); k += 1 + ln
                vs.append((name, hex2f(t[k]))); k += 1
            terms.append((coef, vs))
        g = read_inter(text)
        if g is not None:
            if len(g) != len(terms):
                return 'number of terms differs from the documented reading of the text'
            for (ec, ev), (c, vs) in zip(g, terms):
                if c != c or any(e != e for _, e in vs):
                    return 'accepted text produced a NaN'
                if abs(c) == float('inf') or any(abs(e) == float('inf') for _, e in vs):
                    return 'accepted text produced an infinite coefficient or exponent'
                if abs(Fraction(c) - ec) > 2 * EPS * abs(ec) + Fraction(1, 2 ** 1074):
                    return 'a coefficient differs from the documented reading of the text'
                if sorted(ev) != [n for n, _ in vs]:
                    return 'the variables of a term differ from the documented reading (sorted, merged)'
                for n, e in vs:
                    if abs(Fraction(e) - ev[n]) > 4 * EPS * abs(ev[n]) + Fraction(1, 2 ** 1070):
                        return 'an exponent differs from the documented reading of the text'
            return None
        try:
            f = conventional(text)
            for x in POINTS:
                env = {chr(c): x + (c % 7) for c in range(65, 123)}
                exact = f(env)
                val = Fraction(0)
                scale = abs(exact)
                for c, vs in terms:
                    tv = Fraction(c)
                    for n, e in vs:
                        fe = Fraction(e)
                        if fe.denominator != 1:
                            raise NoReading('non-integer exponent outside the grammar')
                        tv *= env[n] ** int(fe)
                    val += tv
                    scale += abs(tv)
                if abs(val - exact) > 64 * EPS * scale:
                    return 'accepted text outside the documented grammar is read with a different value than its conventional reading'
            return None
        except NoReading as e:
            return 'accepted text that has no arithmetic reading (%s): characters were dropped or misread' % e
        except ZeroDivisionError:
            return None


def compare(case, impl, model):
    return impl == model


# ---- extraction cross-check: the same cases evaluated inside Coq by vm_compute
from tools import xenc
COQ_IMPORTS = 'Base.XEnc Base.Str Model.Poly Model.Parse'
XCHECK_N = 200


def coq_term(case):
    t = xenc.Toks(case.line)
    cmd = t.word()
    s = t.cpstr()
    if cmd == 'classes':
        return xenc.CQ_CLASSES % xenc.cq_str(s)
    # crc thinning below XCHECK_N: every class of the generator is represented, the long inputs included
    if not xenc.keep(case, 2 if case.cls in ('bigexp', 'long') else 3000 if case.cls.startswith('exh') else 60 if case.cls == 'mutation' else 400):
        return None
    if cmd == 'simple':
        # x^65535 makes a 65536-element coefficient list: fine for the executable, beyond the stack of Coq's VM
        if re.search(r'\^[^+\-]*\d{4}', ''.join(chr(c) for c in s)):
            return None
        return 'enc_res %s (@parse_simple float FNum uclass_tab %s)' % (xenc.CQ_ENC_SPOLY, xenc.cq_str(s))
    if cmd == 'inter':
        return 'enc_res %s (@parse_inter float FNum uclass_tab %s)' % (xenc.CQ_ENC_IPOLY, xenc.cq_str(s))
    return None


def encode_result(case, model_line):
    cmd = case.line.split(' ', 1)[0]
    if cmd == 'classes':
        return xenc.enc_classes_line(model_line)
    return xenc.enc_line(model_line, xenc.enc_spoly_toks if cmd == 'simple' else xenc.enc_ipoly_toks)
