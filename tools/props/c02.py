# C02 — multivariate parser: grammar accepted, canonical form, evaluation = maths,
# agreement with the univariate parser.  Generator, independent oracle, comparison.
from fractions import Fraction
from decimal import Decimal, getcontext, localcontext
import math, re
from tools.lib import Case, f2hex, hex2f, is_hexfloat, cps

ID = 'C02'
EPS = Fraction(1, 2 ** 52)
RULE = ('grammar-directed strings: 1-8 terms, 0-4 letters per term drawn with repeats from a pool of 1-5 ASCII letters, '
        "coefficient forms '', n, n.d, .d, n., a/b, exponent forms n, -n, n.d, .d, a/b, -a/b, optional leading sign, "
        'blanks/tabs/newlines/Unicode spaces at random positions (class valid*); the same strings evaluated through '
        'eval_multivariate under assignments in the natural domain, with a binding removed (missing variable), with '
        'duplicate/extra bindings, and through eval_univariate (<= 1 variable, and > 1 variables); strings of the common '
        'univariate sub-language through both parsers (agree); a malformed stream (mutations: foreign characters, '
        'doubled/dangling operators, digit after a variable, zero denominators, Unicode digits). distinct = distinct '
        'case line; non-trivial = accepted string with >= 2 terms or >= 2 variable occurrences')
TRUSTED = ['extraction of the float instance (ExtrOcamlBasic, ExtrOCamlFloats, ExtrOCamlInt63) and ocaml/c02.ml',
           'Rust harness harness/src/bin/c02.rs',
           'independent oracle tools/props/c02.py: regex reader of the documented grammar, exact rationals, '
           'decimal (50 digits) for non-integral exponents',
           'libm powf is not modelled bit-for-bit: integral exponents are compared with square-and-multiply under an '
           'ulp envelope, fractional exponents are judged by the oracle alone']
ASSUMPTIONS = ['theorems about values are for the R instance (Rpowf = power on the natural domain); rounding envelopes are measured',
               'acceptance theorem needs: ASCII digits are numeric and ASCII letters are not numeric in the Unicode tables (true for Rust)',
               'numerals far from overflow/underflow (<= 17 significant digits, magnitude 1e-9..1e9)']

WS = set(list(range(9, 14)) + [32, 133, 160, 5760] + list(range(8192, 8203)) + [8232, 8233, 8239, 8287, 12288])
ASCII_LETTERS = 'abcdefghijklmnopqrstuvwxyzABCDEFGHIJKLMNOPQRSTUVWXYZ'


def strip_ws(s):
    return ''.join(c for c in s if ord(c) not in WS)


# ------------------------------------------------------------------ source trees
# dec: str ; num: ['d', dec] | ['f', dec, dec] ; expo: None | [neg, num] ; term: [neg, num|None, [[letter, expo], ...]]
def dec_val(d):
    ip, _, fp = d.partition('.')
    return Fraction(int(ip or '0') * 10 ** len(fp) + int(fp or '0'), 10 ** len(fp))


def num_val(n):
    if n[0] == 'd':
        return dec_val(n[1])
    return dec_val(n[1]) / dec_val(n[2])


def num_ok(n):
    return n[0] == 'd' or dec_val(n[2]) != 0


def num_txt(n):
    return n[1] if n[0] == 'd' else n[1] + '/' + n[2]


def render(lead, src):
    out = []
    for i, (neg, coef, vs) in enumerate(src):
        if i == 0:
            out.append('-' if neg else ('+' if lead else ''))
        else:
            out.append('-' if neg else '+')
        if coef is not None:
            out.append(num_txt(coef))
        for l, e in vs:
            out.append(l)
            if e is not None:
                out.append('^' + ('-' if e[0] else '') + num_txt(e[1]))
    return ''.join(out)


def dec_f64(d):
    return float(d if d[0] != '.' else '0' + d)          # correctly rounded; beyond the range: inf


def num_f64(n, neg=False):
    """value in binary64 exactly as a reader working in f64 computes it, or None when the numeral is
    not well-formed "in the arithmetic at hand": zero or infinite denominator, infinite numeral/quotient"""
    if n[0] == 'd':
        v = dec_f64(n[1])
        return (-v if neg else v) if math.isfinite(v) else None
    x, y = dec_f64(n[1]), dec_f64(n[2])
    if y == 0.0 or not math.isfinite(y):
        return None
    q = (-x if neg else x) / y
    return q if math.isfinite(q) else None


def src_ok(src):
    for neg, coef, vs in src:
        if coef is not None and num_f64(coef, neg) is None:
            return False
        sums = {}
        for l, e in vs:
            ev = 1.0 if e is None else num_f64(e[1], e[0])
            if ev is None:
                return False
            sums[l] = sums[l] + ev if l in sums else ev      # same letter: added left to right
        if not all(math.isfinite(v) for v in sums.values()):
            return False
    return True


# independent reader of the documented language (on blank-free text)
NUM_RE = re.compile(r'(?:[0-9]+\.?[0-9]*|\.[0-9]+)(?:/(?:[0-9]+\.?[0-9]*|\.[0-9]+))?')


def parse_num(t):
    if '/' in t:
        a, b = t.split('/')
        return ['f', a, b]
    return ['d', t]


def read_text(t):
    """source tree of blank-free text t, or None when t is not in the documented language"""
    src, pos, first = [], 0, True
    while pos < len(t):
        neg = False
        if t[pos] in '+-':
            neg = t[pos] == '-'
            pos += 1
        elif not first:
            return None
        first = False
        coef = None
        m = NUM_RE.match(t, pos)
        if m:
            coef = parse_num(m.group())
            pos = m.end()
        vs = []
        while pos < len(t) and t[pos] in ASCII_LETTERS:
            l = t[pos]
            pos += 1
            e = None
            if pos < len(t) and t[pos] == '^':
                pos += 1
                eneg = False
                if pos < len(t) and t[pos] == '-':
                    eneg = True
                    pos += 1
                m = NUM_RE.match(t, pos)
                if not m:
                    return None
                e = [eneg, parse_num(m.group())]
                pos = m.end()
            vs.append([l, e])
        if coef is None and not vs:
            return None
        src.append([neg, coef, vs])
        if pos < len(t) and t[pos] not in '+-':
            return None
    return src


def canonical(src):
    """exact value side: per term (coefficient, [(letter, [exponents in source order])] sorted by letter)"""
    out = []
    for neg, coef, vs in src:
        c = num_val(coef) if coef is not None else Fraction(1)
        if neg:
            c = -c
        d = {}
        for l, e in vs:
            ev = Fraction(1) if e is None else (-num_val(e[1]) if e[0] else num_val(e[1]))
            d.setdefault(l, []).append((ev, e))
        out.append((c, neg, coef, sorted(d.items())))
    return out


# ------------------------------------------------------------------ generator
def gen_dec(rng, allow_zero=True):
    form = rng.choice(['n', 'n', 'n.d', 'n.d', '.d', 'n.', '0n', 'long'])
    if form == 'n':
        s = str(rng.choice([rng.randint(0, 9), rng.randint(0, 99), rng.randint(0, 100000)]))
    elif form == 'n.d':
        s = '%d.%s' % (rng.randint(0, 999), ''.join(rng.choice('0123456789') for _ in range(rng.randint(1, 6))))
    elif form == '.d':
        s = '.' + ''.join(rng.choice('0123456789') for _ in range(rng.randint(1, 6)))
    elif form == 'n.':
        s = '%d.' % rng.randint(0, 999)
    elif form == '0n':
        s = '00' + str(rng.randint(0, 99))
    else:
        s = '%d.%s' % (rng.randint(0, 99999999), ''.join(rng.choice('0123456789') for _ in range(rng.randint(7, 9))))
    if not allow_zero and dec_val(s) == 0:
        return gen_dec(rng, allow_zero)
    return s


def small_dec(rng, nonzero=False):
    while True:
        s = rng.choice([str(rng.randint(0, 6)), str(rng.randint(0, 12)), '%d.%d' % (rng.randint(0, 3), rng.randint(0, 9)),
                        '.' + str(rng.randint(1, 9)), '%d.' % rng.randint(0, 4), '0' + str(rng.randint(0, 5))])
        if not nonzero or dec_val(s) != 0:
            return s


def gen_coef(rng):
    k = rng.random()
    if k < 0.25:
        return None
    if k < 0.75:
        return ['d', gen_dec(rng)]
    return ['f', gen_dec(rng), gen_dec(rng, allow_zero=False)]


def gen_expo(rng, integral_only=False):
    k = rng.random()
    if k < 0.3:
        return None
    neg = rng.random() < 0.3
    if integral_only or rng.random() < 0.55:
        return [neg, ['d', rng.choice([str(rng.randint(0, 6)), str(rng.randint(0, 12)), '0' + str(rng.randint(0, 4)),
                                       '%d.' % rng.randint(0, 5), '%d.0' % rng.randint(0, 5)])]]
    if rng.random() < 0.5:
        return [neg, ['d', small_dec(rng)]]
    return [neg, ['f', small_dec(rng), small_dec(rng, nonzero=True)]]


def gen_src(rng, integral_only=False):
    pool = rng.sample(ASCII_LETTERS[:26] + 'XYZ', rng.randint(1, 5))
    if rng.random() < 0.3:
        pool = rng.sample('xyz', rng.randint(1, 3))
    src = []
    for _ in range(rng.choice([1, 1, 2, 2, 3, 3, 4, 5, 6, 7, 8])):
        nv = rng.choice([0, 1, 1, 2, 2, 3, 4])
        coef = gen_coef(rng)
        if nv == 0 and coef is None:
            coef = ['d', gen_dec(rng)]
        vs = [[rng.choice(pool), gen_expo(rng, integral_only)] for _ in range(nv)]
        src.append([rng.random() < 0.4, coef, vs])
    return src


BLANKS = [' ', ' ', ' ', ' ', '\t', '\n', '\r', '\u00a0', '\u2003', '\u3000', '\x0b', '\u2009', '\u0085']


def add_blanks(rng, t):
    mode = rng.random()
    if mode < 0.25:
        return t
    out = []
    p = 0.15 if mode < 0.7 else 0.5
    for ch in t:
        while rng.random() < p * 0.5:
            out.append(rng.choice(BLANKS))
        out.append(ch)
    while rng.random() < p:
        out.append(rng.choice(BLANKS))
    return ''.join(out)


def natural_value(rng, need_pos, need_nonzero):
    k = rng.random()
    if need_pos:
        return rng.choice([rng.uniform(0.25, 4.0), float(rng.randint(1, 4)), 0.5, 1.0, 2.0])
    v = rng.choice([rng.uniform(-3.0, 3.0), float(rng.randint(-3, 3)), 0.5, -1.0, 1.5])
    if need_nonzero and abs(v) < 0.25:
        v = 0.75 if v >= 0 else -0.75
    return v


def domain_needs(src):
    need_pos = need_nonzero = False
    for neg, coef, vs in src:
        for l, e in vs:
            if e is not None:
                ev = num_val(e[1])
                # a quotient is computed in floating point (2.8/0.4 is not 7.0): it counts as non-integer
                if ev.denominator != 1 or e[1][0] == 'f':
                    need_pos = True
                if e[0] and ev != 0:
                    need_nonzero = True
    return need_pos, need_nonzero


def letters_of(src):
    return sorted({l for _, _, vs in src for l, _ in vs})


MUT_CHARS = list('*()#@^-+/.e2 xE_=') + ['²', '٣', '½', 'π', 'é', '１']


def mutate(rng, t):
    k = rng.random()
    if not t:
        return rng.choice(['+', '-', '@', '^', '/', '.', '--', '+-', 'x^', '^2'])
    i = rng.randrange(len(t) + 1)
    if k < 0.4:
        return t[:i] + rng.choice(MUT_CHARS) + t[i:]
    if k < 0.55:
        return t[:i] + rng.choice(['++', '--', '+-', '-+', '^-', '^^', '//', '..', '/-', '^+']) + t[i:]
    if k < 0.7:
        return t + rng.choice(['+', '-', '^', '/', '^-', '.', '/0', '^1/0', '^0/0.0'])
    if k < 0.8 and len(t) > 1:
        j = rng.randrange(len(t))
        return t[:j] + t[j + 1:]
    if k < 0.9:
        return rng.choice(['+', '-', '', '/', '1/0']) + t
    j = rng.randrange(len(t))
    return t[:j] + rng.choice(MUT_CHARS) + t[j + 1:]


def big_digits(rng):
    k = rng.random()
    if k < 0.35:
        n = rng.randint(310, 420)                      # certainly infinite
        return rng.choice('123456789') + ''.join(rng.choice('0123456789') for _ in range(n - 1))
    if k < 0.55:
        n = rng.randint(290, 308)                      # large but finite
        return rng.choice('123456789') + ''.join(rng.choice('0123456789') for _ in range(n - 1))
    return rng.choice(['9' * 308, '9' * 309, '1' + '0' * 308, '1' + '0' * 309, '17976931348623157' + '0' * 292,
                       '17976931348623158' + '0' * 292, '17976931348623159' + '0' * 292, '18' + '0' * 307,
                       '17976931348623158079372897140530341507993413271003782693617377898044496829276475094664901797758720709633028641669288791094655554785194040263065748867150582068190890200070838367627385484581771153176447573027006985557136695962284291481986083893647529271907416844436551070434271155969950809304288017790417449779' + '.' + rng.choice(['0', '5', '9']),
                       '0' * 400 + '7', '9' * 308 + '.' + '9' * 50])


def tiny_dec(rng):
    return rng.choice(['.' + '0' * rng.randint(300, 420) + '1', '0.' + '0' * 322 + '1', '0.' + '0' * 323 + '5',
                       '0.' + '0' * 323 + '2', '.' + '0' * 307 + '1'])


def overflow_texts(rng, n):
    fixed = ['9' * 400 + 'x', '9' * 308 + '/.1x', '1/' + '9' * 309 + 'x', 'x^' + '9' * 308 + 'x^' + '9' * 308,
             'x^' + '9' * 400, '-' + '9' * 400, 'x^-' + '9' * 400, '9' * 308 + 'x^' + '9' * 308, 'x^1/' + '9' * 400,
             'x^' + '9' * 400 + '/2', '1/.' + '0' * 400 + '1x', '.' + '0' * 400 + '1x', 'x^-' + '9' * 308 + 'x^-' + '9' * 308,
             'x^' + '9' * 308 + 'x^-' + '9' * 308, 'x^' + '9' * 308 + 'yx^' + '9' * 308, '-' + '9' * 308 + '/.1',
             '9' * 308 + '/.5' + 'x^' + '9' * 308 + '/.5']
    for t in fixed:
        yield t, True
    for _ in range(n):
        B, S, Tn = big_digits(rng), small_dec(rng, nonzero=True), tiny_dec(rng)
        sign = rng.choice(['', '-', '+'])
        form = rng.randrange(12)
        v, w = rng.choice('xyzab'), rng.choice('xyzab')
        if form == 0:
            t = sign + B + v
        elif form == 1:
            t = sign + B + '/' + S + v
        elif form == 2:
            t = sign + S + '/' + B + v
        elif form == 3:
            t = sign + B + '/' + Tn
        elif form == 4:
            t = sign + v + '^' + rng.choice(['', '-']) + B
        elif form == 5:
            t = sign + v + '^' + rng.choice(['', '-']) + B + v + '^' + rng.choice(['', '-']) + big_digits(rng)
        elif form == 6:
            t = sign + v + '^' + rng.choice(['', '-']) + B + '/' + S
        elif form == 7:
            t = sign + v + '^' + S + '/' + B
        elif form == 8:
            t = sign + Tn + v + '^' + S + '/' + Tn
        elif form == 9:
            t = '2' + w + sign.replace('', '+', 1)[:1] + B + v + '^2-3'
        elif form == 10:
            t = sign + B + '/' + big_digits(rng) + v
        else:
            t = sign + v + '^' + B + w + v + '^' + B + w + '^' + S
        if rng.random() < 0.2:
            t = add_blanks(rng, t)
        yield t, rng.random() < 0.3


def near_one(rng, e, allow_neg=True):
    k = max(2, min(52, abs(e).bit_length() - 1 + rng.choice([-2, -1, 0, 1, 2])))
    v = 1.0 + rng.choice([-1.0, 1.0]) * 2.0 ** -k
    return -v if allow_neg and rng.random() < 0.25 else v


def bigexp_cases(rng, n_random):
    es = [2 ** 31 - 1, 2 ** 31, 2 ** 31 + 1, 2 ** 32, 3000000000, 2 ** 40, 2 ** 33 + 1,
          -(2 ** 31 - 1), -(2 ** 31), -(2 ** 31 + 1), -3000000000, -(2 ** 32), -(2 ** 40), -(2 ** 35 + 1)]
    es += [rng.choice([-1, 1]) * rng.randint(2 ** 31, 2 ** 40) for _ in range(n_random)]
    for i, e in enumerate(es):
        x = near_one(rng, e)
        et = ('-' if e < 0 else '') + str(abs(e)) + rng.choice(['', '', '.', '.0'])
        if i % 3 == 0:
            t, binds = 'x^' + et, [['x', x]]
        elif i % 3 == 1:
            t, binds = rng.choice(['3', '2.5', '-1/4', '-']) + 'x^' + et + '+' + str(rng.randint(1, 9)), [['x', x]]
        else:
            e2 = rng.choice([-1, 1]) * rng.randint(2 ** 31, 2 ** 40)
            y = near_one(rng, e2)
            t = rng.choice(['', '7', '.5']) + 'y^' + ('-' if e2 < 0 else '') + str(abs(e2)) + 'x^' + et + '-x^2'
            binds = [['x', x], ['y', y]]
        yield t, binds, x


def univariate_src(rng):
    v = rng.choice('xyztabXQ')
    src = []
    for _ in range(rng.randint(1, 8)):
        neg = rng.random() < 0.4
        if rng.random() < 0.25:
            src.append([neg, ['d', gen_dec(rng)], []])
        else:
            coef = None if rng.random() < 0.3 else ['d', gen_dec(rng)]
            e = None if rng.random() < 0.3 else [False, ['d', rng.choice([str(rng.randint(0, 8)), str(rng.randint(0, 30)),
                                                                         '0' + str(rng.randint(0, 9))])]]
            src.append([neg, coef, [[v, e]]])
    return src


def gen(rng, tier):
    n_valid = 700 if tier == 'quick' else 12000
    n_mal = 900 if tier == 'quick' else 15000
    n_agree = 400 if tier == 'quick' else 6000
    # fixed edge cases
    fixed = ['', ' ', '\t\n', 'x', '-x', '+x', '5', '-5', '2x^2y^3', 'x^-2', 'x^1/2', 'x^-1/2', '3/4x', '-3/4x^-.5y',
             'x^2x', 'yx', 'xyx^2y^-1', '1/2', '.5x', '5.x', 'x^2.5', 'a+b-c', 'x^2 - y^2', 'zyx', 'Xx', '1/3x^1/3x^2/3']
    for t in fixed:
        src = read_text(strip_ws(t))
        yield Case('parse ' + cps(t), 'fixed', {'src': src, 'text': t})
    for _ in range(n_valid):
        integral = rng.random() < 0.5
        src = gen_src(rng, integral)
        lead = rng.random() < 0.3
        t0 = render(lead, src)
        assert read_text(t0) == src, (t0, src, read_text(t0))
        t = add_blanks(rng, t0)
        cls = 'valid_integral' if integral else 'valid_fractional'
        yield Case('parse ' + cps(t), cls, {'src': src, 'text': t})
        # evaluations
        ls = letters_of(src)
        need_pos, need_nonzero = domain_needs(src)
        for rep in range(2):
            vals = {l: natural_value(rng, need_pos, need_nonzero) for l in ls}
            x = natural_value(rng, need_pos, need_nonzero)
            binds = [[l, vals[l]] for l in ls]
            rng.shuffle(binds)
            kind = 'eval'
            r = rng.random()
            if r < 0.15 and binds:
                binds.pop(rng.randrange(len(binds)))
                kind = 'eval_missing'
            elif r < 0.3:
                # a shadowed earlier binding and an unused extra variable
                if binds:
                    l0 = rng.choice(binds)[0]
                    binds.insert(0, [l0, natural_value(rng, True, True) + 7.0])
                binds.append(['q' if 'q' not in ls else 'Q9', 3.0])
                kind = 'eval_shadow'
            line = 'eval %s %s %d %s' % (cps(t), f2hex(x), len(binds), ' '.join(cps(l) + ' ' + f2hex(v) for l, v in binds))
            yield Case(line.strip(), kind, {'src': src, 'text': t, 'x': x, 'binds': binds})
    # zero denominators: documented language requires non-zero denominators
    for t in ['1/0x', 'x^1/0', '3/0.0', 'x^2/00', '1/.0y', 'x^-1/0']:
        yield Case('parse ' + cps(t), 'zero_denominator', {'src': None, 'text': t})
    # malformed stream
    for _ in range(n_mal):
        src = gen_src(rng, rng.random() < 0.5)
        t = render(rng.random() < 0.3, src)
        for _ in range(rng.choice([1, 1, 1, 2, 3])):
            t = mutate(rng, t)
        if rng.random() < 0.3:
            t = add_blanks(rng, t)
        yield Case('parse ' + cps(t), 'malformed', {'src': None, 'text': t})
        if rng.random() < 0.15:
            yield Case('eval %s %s 0' % (cps(t), f2hex(1.5)), 'malformed_eval', {'src': None, 'text': t, 'x': 1.5, 'binds': []})
    # numerals around and beyond the range of f64 (fix 59b028d): rejected, never infinite, never a panic
    for t, with_eval in overflow_texts(rng, 150 if tier == 'quick' else 2500):
        yield Case('parse ' + cps(t), 'overflow', {'src': None, 'text': t})
        if with_eval:
            binds = [[l, 1.5] for l in sorted(set(c for c in t if c in ASCII_LETTERS))]
            line = 'eval %s %s %d %s' % (cps(t), f2hex(2.0), len(binds), ' '.join(cps(l) + ' ' + f2hex(v) for l, v in binds))
            yield Case(line.strip(), 'overflow_eval', {'src': None, 'text': t, 'x': 2.0, 'binds': binds, 'nonum': True})
    # whole exponents beyond the range of i32 (a `powi(pow as i32)` shortcut saturates there): x = +-(1 +- 2^-k)
    # with k ~ log2|e| +- 2, so that x^e ~ exp(+-e 2^-k) is finite and far from 0 and 1
    for t, binds, x in bigexp_cases(rng, 10 if tier == 'quick' else 300):
        line = 'eval %s %s %d %s' % (cps(t), f2hex(x), len(binds), ' '.join(cps(l) + ' ' + f2hex(v) for l, v in binds))
        yield Case(line.strip(), 'eval_bigexp', {'src': None, 'text': t, 'x': x, 'binds': binds, 'skip_model': True})
    # agreement with the univariate parser
    for _ in range(n_agree):
        src = univariate_src(rng)
        t = add_blanks(rng, render(rng.random() < 0.3, src))
        for _ in range(2):
            x = rng.choice([rng.uniform(-3.0, 3.0), float(rng.randint(-3, 3)), 0.0, 1.0, -1.0, 0.1])
            yield Case('agree %s %s' % (cps(t), f2hex(x)), 'agree', {'src': src, 'text': t, 'x': x})


# ------------------------------------------------------------------ oracle
def expected_src(case):
    m = case.meta
    src = m.get('src')
    if src is None:
        src = read_text(strip_ws(m['text']))
    if src is not None and not src_ok(src):
        return None
    if '@' in m['text']:
        return None
    return src


def parse_struct(toks):
    """'ok n (coef nv (namecps exp)*)* | nv namecps*' -> (terms, vars) or None"""
    try:
        i = 1
        n = int(toks[i]); i += 1
        terms = []
        for _ in range(n):
            c = toks[i]; nv = int(toks[i + 1]); i += 2
            vs = []
            for _ in range(nv):
                ln = int(toks[i]); name = ''.join(chr(int(z)) for z in toks[i + 1:i + 1 + ln]); i += 1 + ln
                vs.append((name, toks[i])); i += 1
            terms.append((c, vs))
        if toks[i] != '|':
            return None
        i += 1
        nv = int(toks[i]); i += 1
        names = []
        for _ in range(nv):
            ln = int(toks[i]); names.append(''.join(chr(int(z)) for z in toks[i + 1:i + 1 + ln])); i += 1 + ln
        if i != len(toks):
            return None
        return terms, names
    except (IndexError, ValueError):
        return None


def dec_float_ok(tok, d, neg):
    """a plain decimal must be the correctly rounded value of its spelling"""
    want = float(d if d[0] != '.' else '0' + d)
    if neg:
        want = -want
    return tok == f2hex(want)


def close(tok, exact, ulps, scale=None):
    if not is_hexfloat(tok) or tok == 'nan':
        return False
    v = hex2f(tok)
    if math.isinf(v):
        return False
    s = abs(exact) if scale is None else scale
    return abs(Fraction(v) - exact) <= ulps * EPS * s + Fraction(1, 2 ** 1074)


def judge_structure(src, impl):
    st = parse_struct(impl.split())
    if st is None:
        return 'malformed output'
    terms, names = st
    for ctok, vs in terms:
        for tok in [ctok] + [e for _, e in vs]:
            if not is_hexfloat(tok) or tok == 'nan' or math.isinf(hex2f(tok)):
                return 'accepted polynomial has a non-finite coefficient or exponent'
    want = canonical(src)
    if len(terms) != len(want):
        return 'number of terms differs from the source'
    allnames = set()
    for (ctok, vs), (c, neg, coef, wvs) in zip(terms, want):
        # coefficient
        if coef is not None and coef[0] == 'd':
            if not dec_float_ok(ctok, coef[1], neg):
                return 'decimal coefficient is not the correctly rounded value of its spelling'
        elif not close(ctok, c, 2):
            return 'coefficient differs from the exact rational beyond rounding'
        # canonical form of the variable list
        ns = [n for n, _ in vs]
        if any(a >= b for a, b in zip(ns, ns[1:])):
            return 'variables of a term are not strictly sorted by name'
        if ns != [l for l, _ in wvs]:
            return 'variables of a term are not the letters of the source term'
        for (n, etok), (l, es) in zip(vs, wvs):
            exact = sum(e for e, _ in es)
            if len(es) == 1 and (es[0][1] is None or es[0][1][1][0] == 'd'):
                e = es[0][1]
                if e is None:
                    ok = etok == f2hex(1.0)
                else:
                    ok = dec_float_ok(etok, e[1][1], e[0])
                if not ok:
                    return 'decimal exponent is not the correctly rounded value of its spelling'
            elif not close(etok, exact, 2 * len(es) + 1, sum(abs(e) for e, _ in es)):
                return 'exponent differs from the exact rational (sum) beyond rounding'
        allnames.update(ns)
    if names != sorted(allnames):
        return 'variable list is not the sorted set of variables used'
    return None


def exact_terms(src, vals):
    """list of Decimal term values (50 digits) and the rounding budget; vals: letter -> float"""
    out = []
    for c, _neg, coef, wvs in canonical(src):
        v = Decimal(c.numerator) / Decimal(c.denominator)
        budget = 4
        for l, es in wvs:
            e = sum(ev for ev, _ in es)
            x = vals[l]
            if e.denominator == 1:
                if x == 0 and e < 0:
                    return None
                if abs(e) <= 4096:
                    p = Fraction(x) ** int(e)
                    pv = Decimal(p.numerator) / Decimal(p.denominator)
                else:               # huge whole exponent: exp(e ln x) at 60 digits (x is an exact binary fraction)
                    pv = Decimal(x) ** Decimal(int(e))
            else:
                if x <= 0:
                    return None
                pv = Decimal(x) ** (Decimal(e.numerator) / Decimal(e.denominator))
            v *= pv
            lnx = abs(math.log(abs(x))) if x != 0 else 0.0
            if len(es) == 1 and e.denominator == 1 and abs(e) >= 2 ** 20 and Fraction(float(e)) == e \
                    and (es[0][1] is None or es[0][1][1][0] == 'd'):
                budget += 8         # a whole exponent stored exactly: only libm's own error (< 1 ulp) remains
            else:
                budget += 6 + 4 * (len(es) + 1) * (float(abs(e)) + sum(float(abs(ev)) for ev, _ in es) + 1) * (lnx + 1)
        out.append((v, budget))
    return out


def eval_expect(src, vals):
    """(value Decimal, tolerance Decimal) or None when outside the natural domain"""
    need_pos, need_nonzero = domain_needs(src)
    used = [vals[l] for l in letters_of(src)]
    if (need_pos and any(v <= 0 for v in used)) or (need_nonzero and any(v == 0 for v in used)):
        return None
    with localcontext() as ctx:
        ctx.prec = 60
        ts = exact_terms(src, vals)
        if ts is None:
            return None
        total = sum((v for v, _ in ts), Decimal(0))
        eps = Decimal(2) ** -52
        tol = sum((abs(v) * Decimal(b) for v, b in ts), Decimal(0)) * eps
        tol += sum((abs(v) for v, _ in ts), Decimal(0)) * eps * (len(ts) + 2)
        tol = tol * 2 + Decimal(10) ** -300
        return total, tol


def num_close(tok, exp):
    if not is_hexfloat(tok) or tok == 'nan':
        return False
    v = hex2f(tok)
    if math.isinf(v):
        return False
    with localcontext() as ctx:
        ctx.prec = 50
        return abs(Decimal(v) - exp[0]) <= exp[1]


def eval_views(case):
    """expected outcomes of the two evaluations: ('err', Kind) | ('num', (value, tol)) | ('any',)"""
    m = case.meta
    src = expected_src(case)
    ls = letters_of(src)
    if m.get('nonum'):          # numerals near the range limits: only error kinds and "never panic" are judged
        env = {l for l, _ in m['binds']}
        return (('err', 'VariableNotFound') if any(l not in env for l in ls) else ('any',),
                ('err', 'TooManyVariables') if len(ls) > 1 else ('any',))
    env = {}
    for l, v in m['binds']:
        env[l] = v
    if any(l not in env for l in ls):
        mv = ('err', 'VariableNotFound')
    else:
        e = eval_expect(src, env)
        mv = ('num', e) if e is not None else ('any',)
    if len(ls) > 1:
        uv = ('err', 'TooManyVariables')
    else:
        e = eval_expect(src, {l: m['x'] for l in ls})
        uv = ('num', e) if e is not None else ('any',)
    return mv, uv


def judge_tok(tok, view, what):
    if tok == 'panic':
        return what + ': panic'
    if view[0] == 'err':
        if tok != 'err:' + view[1]:
            return what + ': expected the error %s, got %s' % (view[1], tok if tok.startswith('err:') else 'a number')
        return None
    if view[0] == 'num':
        if tok.startswith('err:'):
            return what + ': error %s although every variable is bound' % tok[4:]
        if not num_close(tok, view[1]):
            return what + ': value differs from sum coef * prod value^exponent beyond the rounding envelope'
    return None


def judge(case, impl):
    if impl == 'panic' or impl.startswith('abort'):
        return 'panic'
    cmd = case.line.split(' ', 1)[0]
    m = case.meta
    if cmd in ('parse', 'eval'):
        src = expected_src(case)
        if src is None:
            if impl.startswith('ok'):
                if cmd == 'parse' and any(t in ('nan', '7ff0000000000000', 'fff0000000000000') for t in impl.split()):
                    return 'accepted polynomial has a non-finite coefficient or exponent'
                return 'text outside the documented language (or beyond the range of f64) is accepted'
            return None if impl.startswith('err ') else 'malformed output'
        if not impl.startswith('ok'):
            return 'string of the documented language is rejected (%s)' % impl
        if cmd == 'parse':
            return judge_structure(src, impl)
        t = impl.split()
        if len(t) != 5 or t[1] != 'mv' or t[3] != 'uv':
            return 'malformed output'
        mv, uv = eval_views(case)
        return judge_tok(t[2], mv, 'eval_multivariate') or judge_tok(t[4], uv, 'eval_univariate')
    if cmd == 'agree':
        t = impl.split()
        if len(t) != 4 or t[0] != 's' or t[2] != 'i':
            return 'malformed output'
        src, x = m['src'], m['x']
        for k in (1, 3):
            if not is_hexfloat(t[k]) or t[k] == 'nan':
                return 'common sub-language string not evaluated to a number by %s (%s)' % ('simple' if k == 1 else 'intermediate', t[k])
        X = Fraction(x)
        exact = Fraction(0)
        mag = Fraction(0)
        kmax = 0
        for neg, coef, vs in src:
            c = num_val(coef) if coef is not None else Fraction(1)
            k = 0
            if vs:
                e = vs[0][1]
                k = 1 if e is None else int(num_val(e[1]))
            kmax = max(kmax, k)
            tv = (-c if neg else c) * X ** k
            exact += tv
            mag += abs(tv)
        gamma = 2 * EPS * mag * (2 * kmax + 2 * len(src) + 6) + Fraction(1, 2 ** 1000)
        s, i = Fraction(hex2f(t[1])), Fraction(hex2f(t[3]))
        if abs(s - exact) > gamma:
            return 'univariate evaluation differs from the exact value beyond the envelope'
        if abs(i - exact) > gamma:
            return 'multivariate evaluation differs from the exact value beyond the envelope'
        if abs(s - i) > 2 * gamma:
            return 'the two representations disagree beyond the envelope'
        return None
    return 'unknown command'


# ------------------------------------------------------------------ correspondence
def tok_match(ti, tm, view):
    if ti == tm:
        return True
    if not (is_hexfloat(ti) and is_hexfloat(tm)):
        return False
    if tm == 'nan':
        return True            # non-integral exponent: libm pow is not modelled; the oracle decided
    if {ti, tm} == {'0000000000000000', '8000000000000000'}:
        return True
    if ti == 'nan':
        return False
    if view[0] == 'num':
        with localcontext() as ctx:
            ctx.prec = 50
            a, b = hex2f(ti), hex2f(tm)
            if math.isinf(a) or math.isinf(b):
                return a == b
            return abs(Decimal(a) - Decimal(b)) <= 2 * view[1][1]
    # outside the natural domain (inf/nan arithmetic): same class of result
    a, b = hex2f(ti), hex2f(tm)
    if math.isinf(a) or math.isinf(b):
        return a == b
    return abs(a - b) <= 1e-9 * max(abs(a), abs(b), 1e-300)


def compare(case, impl, model):
    cmd = case.line.split(' ', 1)[0]
    if cmd == 'parse':
        return impl == model
    if cmd == 'eval':
        ti, tm = impl.split(), model.split()
        if len(ti) != 5 or len(tm) != 5:
            return impl == model
        if expected_src(case) is None:
            return impl == model
        mv, uv = eval_views(case)
        if case.meta.get('skip_model'):
            # |exponent| >= 2^31: Num.float_powf does not model libm pow there; only the error kinds are compared
            return all((a == b) if (a.startswith('err') or b.startswith('err') or 'panic' in (a, b)) else True
                       for a, b in ((ti[2], tm[2]), (ti[4], tm[4])))
        return tok_match(ti[2], tm[2], mv) and tok_match(ti[4], tm[4], uv)
    if cmd == 'agree':
        ti, tm = impl.split(), model.split()
        if len(ti) != 4 or len(tm) != 4:
            return impl == model
        if ti[1] != tm[1] and {ti[1], tm[1]} != {'0000000000000000', '8000000000000000'}:
            return False       # univariate side: powi is modelled exactly
        if ti[3] == tm[3]:
            return True
        if not (is_hexfloat(ti[3]) and is_hexfloat(tm[3])) or 'nan' in (ti[3], tm[3]):
            return False
        a, b = hex2f(ti[3]), hex2f(tm[3])
        src, x = case.meta['src'], case.meta['x']
        mag = sum(abs((num_val(c) if c is not None else 1) * Fraction(x) ** (0 if not vs else (1 if vs[0][1] is None else int(num_val(vs[0][1][1])))))
                  for _, c, vs in src)
        kmax = max([0] + [(1 if vs[0][1] is None else int(num_val(vs[0][1][1]))) for _, _, vs in src if vs])
        return abs(Fraction(a) - Fraction(b)) <= 4 * EPS * mag * (2 * kmax + 2 * len(src) + 6) + Fraction(1, 2 ** 1000)
    return impl == model


def nontrivial(case, impl):
    if not (impl.startswith('ok') or impl.startswith('s ')):
        return False
    src = case.meta.get('src') or read_text(strip_ws(case.meta['text']))
    if not src:
        return False
    return len(src) >= 2 or sum(len(vs) for _, _, vs in src) >= 2


def describe(case):
    m = case.meta
    d = {'op': case.line.split(' ', 1)[0], 'text': m['text'], 'class': case.cls}
    for k in ('x', 'binds'):
        if k in m:
            d[k] = m[k]
    return d


# ---- extraction cross-check: the same cases evaluated inside Coq by vm_compute
from tools import xenc
COQ_IMPORTS = 'Base.XEnc Base.Str Model.Poly Model.Parse'
XCHECK_N = 200


def coq_term(case):
    # crc thinning below XCHECK_N so that every eligible case is taken, whatever its position in the stream
    if not xenc.keep(case, 2 if case.cls in ('fixed', 'zero_denominator') else 40):
        return None
    t = xenc.Toks(case.line)
    cmd = t.word()
    s = t.cpstr()
    pi = '(@parse_inter float FNum uclass_tab %s)' % xenc.cq_str(s)
    if cmd == 'parse':
        return 'enc_res %s %s' % (xenc.CQ_ENC_IPOLY, pi)
    if cmd == 'eval':
        x = t.fl()
        nb = t.int()
        env = []
        for _ in range(nb):
            nm = t.cpstr()
            env.append('(%s, %s%%float)' % (xenc.cq_str(nm), xenc.coq_float(t.fl())))
        return ('enc_res (fun p => enc_res enc_float (@i_eval_multivariate float FNum p [%s]) ++ '
                'enc_res enc_float (@i_eval_univariate float FNum p %s%%float)) %s' % ('; '.join(env), xenc.coq_float(x), pi))
    if cmd == 'agree':
        if xenc.big_exponent(s):
            return None
        x = xenc.coq_float(t.fl())
        return ('enc_res enc_float (res_map (fun p => @eval_simple float FNum p %s%%float) (@parse_simple float FNum uclass_tab %s)) ++ '
                'enc_res enc_float (bind %s (fun p => @i_eval_univariate float FNum p %s%%float))' % (x, xenc.cq_str(s), pi, x))
    return None


def encode_result(case, model_line):
    cmd = case.line.split(' ', 1)[0]
    if cmd == 'parse':
        return xenc.enc_line(model_line, xenc.enc_ipoly_toks)
    if cmd == 'eval':
        def pay(t):
            assert t[0] == 'mv' and t[2] == 'uv' and len(t) == 4, t
            return xenc.res_tok(t[1]) + xenc.res_tok(t[3])
        return xenc.enc_line(model_line, pay)
    t = model_line.split()
    assert t[0] == 's' and t[2] == 'i' and len(t) == 4, t
    return xenc.res_tok(t[1]) + xenc.res_tok(t[3])
