// C20, measurement of assumption R1: what a function-like proc-macro sees.
// `echo!(tokens...)` expands to a string literal holding `input.to_string()`, exactly the
// text the two spindalis macros hand to the runtime parsers.
use proc_macro::{Literal, TokenStream, TokenTree};

#[proc_macro]
pub fn echo(input: TokenStream) -> TokenStream {
    let text = input.to_string();
    TokenStream::from(TokenTree::Literal(Literal::string(&text)))
}
