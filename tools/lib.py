# tools/lib.py — shared machinery of ./check: build steps (Coq proofs, extracted
# model, Rust harness), running both sides on the same case lines, verdicts,
# replays and evidence.  Standard library only.
import hashlib, json, os, random, re, struct, subprocess, sys, time
from concurrent.futures import ThreadPoolExecutor
from fractions import Fraction

ROOT = os.path.dirname(os.path.dirname(os.path.abspath(__file__)))
COQ = os.path.join(ROOT, 'coq')
BUILD = os.path.join(ROOT, 'build')
OCAML_SRC = os.path.join(ROOT, 'ocaml')
OCAML_BUILD = os.path.join(BUILD, 'ocaml')
HARNESS = os.path.join(ROOT, 'harness')
TARGET = os.path.join(BUILD, 'target')
REPO = os.environ.get('VERIF_REPO', '/repo')      # development aid: run the checks against a scratch worktree
GUARD = 'spindalis_verif'
NPROC = 16

if REPO != '/repo':
    # a private copy of the harness manifest pointing at the scratch tree, with its own target directory
    _tag = hashlib.sha1(REPO.encode()).hexdigest()[:8]
    _alt = os.path.join(BUILD, 'alt', _tag)
    os.makedirs(os.path.join(_alt, 'harness'), exist_ok=True)
    _m = open(os.path.join(HARNESS, 'Cargo.toml')).read().replace('/repo/', REPO.rstrip('/') + '/')
    open(os.path.join(_alt, 'harness', 'Cargo.toml'), 'w').write(_m)
    if not os.path.exists(os.path.join(_alt, 'harness', 'src')):
        os.symlink(os.path.join(HARNESS, 'src'), os.path.join(_alt, 'harness', 'src'))
    HARNESS = os.path.join(_alt, 'harness')
    TARGET = os.path.join(_alt, 'target')

ENV = dict(os.environ, CARGO_NET_OFFLINE='true', CARGO_TARGET_DIR=TARGET)


def sh(cmd, cwd=None, timeout=None, env=None, inp=None):
    """run a command, return (rc, stdout+stderr)"""
    try:
        p = subprocess.run(cmd, cwd=cwd, shell=isinstance(cmd, str), input=inp,
                           stdout=subprocess.PIPE, stderr=subprocess.STDOUT,
                           timeout=timeout, env=env or ENV, text=True, errors='replace')
        return p.returncode, p.stdout
    except subprocess.TimeoutExpired as e:
        out = e.stdout or ''
        if isinstance(out, bytes):
            out = out.decode('utf-8', 'replace')
        return 124, out + '\n[timeout]'


# ----------------------------------------------------------------- floats
def f2hex(x):
    if x != x:
        return 'nan'
    return '%016x' % struct.unpack('<Q', struct.pack('<d', x))[0]


def hex2f(s):
    if s == 'nan':
        return float('nan')
    return struct.unpack('<d', struct.pack('<Q', int(s, 16)))[0]


def frac(x):
    """exact rational value of a finite float"""
    return Fraction(x)


def ulp_dist(a, b):
    """distance in units of last place between two finite floats (by ordering of bit patterns)"""
    def key(x):
        u = struct.unpack('<q', struct.pack('<d', x))[0]
        return u if u >= 0 else -(u & 0x7fffffffffffffff)
    return abs(key(a) - key(b))


def is_hexfloat(s):
    return s == 'nan' or (len(s) == 16 and all(c in '0123456789abcdef' for c in s))


def same_float_tok(a, b, zero_sign=True):
    if a == b:
        return True
    if zero_sign and {a, b} == {'0000000000000000', '8000000000000000'}:
        return True
    return False


def cps(s):
    """string -> wire form 'n c1 .. cn'"""
    return (str(len(s)) + ' ' + ' '.join(str(ord(c)) for c in s)).strip()


def coq_float(x):
    """a Coq term (float_scope) denoting exactly the float x"""
    if x != x:
        return 'nan'
    if x == float('inf'):
        return 'infinity'
    if x == float('-inf'):
        return 'neg_infinity'
    h = x.hex()
    return '(%s)' % h if h.startswith('-') else h


def float_tok_bits(tok):
    """wire token of a float -> the integer float_bits gives inside Coq (-1 for NaN)"""
    return -1 if tok == 'nan' else int(tok, 16)


def parse_coq_list2(out):
    """parse the `= [[a; b]; [c]] : list (list Z)` printed by Eval vm_compute"""
    body = out[out.index('='):]
    body = body[:body.rindex(': list')]
    res, cur, num, depth = [], None, '', 0
    for ch in body:
        if ch == '[':
            depth += 1
            if depth == 2:
                cur = []
        elif ch in ';]':
            if num and cur is not None:
                cur.append(int(num))
            num = ''
            if ch == ']':
                if depth == 2:
                    res.append(cur); cur = None
                depth -= 1
        elif ch in '-0123456789':
            num += ch
    return res


def extraction_crosscheck(prop, pid, cases, model, k=None):
    """Evaluate a sample of this run's cases INSIDE Coq (vm_compute on the same Gallina definitions that were
    extracted) and compare with what the extracted executable printed.  Needs prop.coq_term(case) -> Coq term of
    type `list Z` (or None to skip the case), prop.encode_result(case, model_line) -> list of ints, prop.COQ_IMPORTS."""
    if not hasattr(prop, 'coq_term'):
        return None
    k = k or getattr(prop, 'XCHECK_N', 150)
    idx = [i for i, c in enumerate(cases) if prop.coq_term(c) is not None]
    if not idx:
        return None
    if len(idx) > k:                       # k evenly spaced eligible cases, first and last included
        idx = [idx[(j * (len(idx) - 1)) // max(1, k - 1)] for j in range(k)]
    mods = ['Base.FloatBits'] + prop.COQ_IMPORTS.split()
    ok, log = coq_build(' '.join(m.replace('.', '/') + '.vo' for m in mods))
    if not ok:
        return {'ok': False, 'checked': 0, 'error': log[-600:]}
    d = os.path.join(BUILD, 'xcheck')
    os.makedirs(d, exist_ok=True)
    f = os.path.join(d, pid + '_x.v')
    terms = ';\n  '.join(prop.coq_term(cases[i]) for i in idx)
    open(f, 'w').write('From Coq Require Import ZArith Floats List.\nImport ListNotations.\n'
                       'From SV Require Import Base.Num Base.Outcome Base.FloatBits %s.\n'
                       'Open Scope Z_scope.\nDefinition xs : list (list Z) := [\n  %s].\nEval vm_compute in xs.\n'
                       % (prop.COQ_IMPORTS, terms))
    rc, out = sh('timeout 900 coqc -Q %s SV %s %s' % (COQ, COQW, f), cwd=d, timeout=930)
    if rc != 0:
        return {'ok': False, 'checked': 0, 'error': out[-600:]}
    got = parse_coq_list2(out)
    exp = [prop.encode_result(cases[i], model[i]) for i in idx]
    bad = [(cases[i].line, g, e) for i, g, e in zip(idx, got, exp) if g != e]
    return {'ok': not bad and len(got) == len(exp), 'checked': len(exp), 'disagreements': len(bad),
            'first': (bad[0][0][:200], str(bad[0][1])[:200], str(bad[0][2])[:200]) if bad else None}


# ----------------------------------------------------------------- build steps
def regen_consts():
    """tools/extract_consts.py rewrites coq/Gen/Consts.v from /repo (only if content changes)"""
    p = os.path.join(ROOT, 'tools', 'extract_consts.py')
    if not os.path.exists(p):
        return {'consts_rederived': None}
    rc, out = sh([sys.executable, p], timeout=60)
    try:
        return json.loads(out.strip().splitlines()[-1])
    except Exception:
        return {'consts_rederived': False, 'error': out[-400:]}


def gen_coqproject():
    """_CoqProject lists every .v under Base, Gen, Model, Proofs, Properties and Extract/Keep.v
    (the per-property extraction files Extract/Pnn.v are compiled in build/ocaml/<id>/)."""
    files = []
    for d in ('Base', 'Gen', 'Model', 'Proofs', 'Properties'):
        dd = os.path.join(COQ, d)
        if os.path.isdir(dd):
            files += [d + '/' + f for f in sorted(os.listdir(dd)) if f.endswith('.v')]
    files.append('Extract/Keep.v')
    txt = ('-Q . SV\n-arg -w -arg -notation-overridden,-deprecated-hint-without-locality,-ambiguous-paths\n'
           + '\n'.join(files) + '\n')
    cp = os.path.join(COQ, '_CoqProject')
    if not os.path.exists(cp) or open(cp).read() != txt:
        open(cp, 'w').write(txt)


def coq_makefile():
    gen_coqproject()
    mk = os.path.join(COQ, 'Makefile')
    cp = os.path.join(COQ, '_CoqProject')
    if not os.path.exists(mk) or os.path.getmtime(mk) < os.path.getmtime(cp):
        sh('coq_makefile -f _CoqProject -o Makefile', cwd=COQ, timeout=60)


def coq_build(target, timeout=1500):
    """make one .vo (and its dependencies).  Returns (ok, log)."""
    coq_makefile()
    rc, out = sh('timeout %d make -j%d %s' % (timeout, NPROC, target), cwd=COQ, timeout=timeout + 30)
    return rc == 0, out


FORBIDDEN = re.compile(r'\b(Admitted|admit|Axiom|Axioms|Parameter|Parameters|Conjecture|Conjectures|'
                       r'Admit Obligations|bypass_check|type-in-type|impredicative-set)\b|'
                       r'Unset\s+Guard|Unset\s+Positivity|Unset\s+Universe')


def strip_coq_comments(src):
    out, depth, i = [], 0, 0
    while i < len(src):
        if src.startswith('(*', i):
            depth += 1; i += 2
        elif src.startswith('*)', i) and depth > 0:
            depth -= 1; i += 2
        else:
            if depth == 0:
                out.append(src[i])
            i += 1
    return ''.join(out)


def forbidden_scan():
    """grep the whole development (comments stripped) for escape hatches"""
    hits = []
    for d, _, fs in os.walk(COQ):
        for f in fs:
            if f.endswith('.v'):
                p = os.path.join(d, f)
                src = strip_coq_comments(open(p, errors='replace').read())
                # 'Variable'/'Hypothesis' outside a section
                depth = 0
                for ln, line in enumerate(src.splitlines(), 1):
                    if FORBIDDEN.search(line):
                        hits.append('%s:%d: %s' % (os.path.relpath(p, ROOT), ln, line.strip()[:80]))
                    if re.match(r'\s*Section\b', line):
                        depth += 1
                    elif re.match(r'\s*End\b', line) and depth > 0:
                        depth -= 1
                    elif depth == 0 and re.match(r'\s*(Variable|Variables|Hypothesis|Hypotheses|Context)\b', line):
                        hits.append('%s:%d: %s (outside a section)' % (os.path.relpath(p, ROOT), ln, line.strip()[:80]))
                if '_CoqProject' == f:
                    pass
    cp = open(os.path.join(COQ, '_CoqProject')).read()
    if re.search(r'type-in-type|impredicative-set|-vos|-vok', cp):
        hits.append('_CoqProject: forbidden flag')
    return hits


def axioms_allow():
    p = os.path.join(ROOT, 'tools', 'axioms_allow.txt')
    return [l.split('#')[0].strip() for l in open(p) if l.split('#')[0].strip()]


def check_property_file(pid):
    """compile coq/Properties/<pid>.v on its own, capture Print Assumptions, count theorems.
    returns dict(ok, obligations, discharged, axioms, disallowed, log)"""
    rel = 'Properties/%s.v' % pid
    path = os.path.join(COQ, rel)
    src = strip_coq_comments(open(path).read())
    theorems = re.findall(r'^\s*Theorem\s+(\w+)', src, re.M)
    pinned = re.findall(r'^\s*Check\s+(\w+)\s*:', src, re.M)
    printed = re.findall(r'^\s*Print\s+Assumptions\s+(\w+)', src, re.M)
    res = {'obligations': len(theorems), 'theorems': theorems, 'discharged': 0, 'axioms': [],
           'disallowed': [], 'ok': False, 'log': ''}
    missing = [t for t in theorems if t not in printed or t not in pinned]
    ok, log = coq_build(rel + 'o')          # dependencies (and the file itself)
    if not ok:
        res['log'] = log[-3000:]
        return res
    rc, out = sh('timeout 900 coqc -Q . SV -w -notation-overridden,-deprecated-hint-without-locality,-ambiguous-paths %s' % rel,
                 cwd=COQ, timeout=930)
    res['log'] = out[-3000:]
    if rc != 0:
        return res
    # parse assumptions: names at line starts inside "Axioms:" blocks
    axioms = set()
    closed = out.count('Closed under the global context')
    for blk in re.split(r'\n(?=Axioms:|Closed under)', out):
        if blk.startswith('Axioms:'):
            for m in re.finditer(r'^([A-Za-z_][\w.\']*)(?= :|\n[ \t]+:)', blk[len('Axioms:'):], re.M):
                # fully qualified names only: the output of a following one-line `Check name : stmt` is not an axiom
                # (an axiom declared in the file itself would be caught by the forbidden-construct scan)
                if '.' in m.group(1) and m.group(1) not in theorems:
                    axioms.add(m.group(1))
    allow = axioms_allow()
    bad = [a for a in sorted(axioms) if not any(a == x or a.endswith('.' + x) or a.split('.')[-1] == x for x in allow)]
    res['axioms'] = sorted(axioms)
    res['disallowed'] = bad
    if missing:
        res['log'] += '\nnot pinned/printed: %s' % missing
    res['ok'] = not bad and not missing and len(theorems) > 0
    res['discharged'] = len(theorems) if res['ok'] else 0
    return res


def coqchk_property(pid, timeout=1500):
    """thorough tier: independent re-check of Properties/<pid>.vo and everything it depends on.
    returns dict(ok, axioms_outside_stdlib, summary)"""
    rc, out = sh('timeout %d coqchk -Q . SV -o -silent SV.Properties.%s' % (timeout, pid), cwd=COQ, timeout=timeout + 30)
    res = {'ok': False, 'rc': rc, 'own_axioms': [], 'summary': ''}
    if rc != 0:
        res['summary'] = out[-800:]
        return res
    own = re.findall(r'^\s+(SV\.[\w.\']+)\s*$', out.split('* Axioms:')[-1].split('* Constants/Inductives relying on type-in-type')[0], re.M) if '* Axioms:' in out else []
    flags = {}
    for key, pat in (('type_in_type', r'relying on type-in-type: (.*)'),
                     ('unsafe_fixpoints', r'relying on unsafe \(co\)fixpoints: (.*)'),
                     ('positivity_assumed', r'whose positivity is assumed: (.*)')):
        m = re.search(pat, out)
        flags[key] = m.group(1).strip() if m else '?'
    res['own_axioms'] = own
    res['flags'] = flags
    res['ok'] = not own and all(v == '<none>' for v in flags.values())
    res['summary'] = 'coqchk ok; axioms declared by this development: %s; %s' % (own or 'none', flags)
    return res


def newest_mtime(paths):
    m = 0
    for p in paths:
        if os.path.isdir(p):
            for d, _, fs in os.walk(p):
                for f in fs:
                    if f.endswith(('.v', '.ml')):
                        m = max(m, os.path.getmtime(os.path.join(d, f)))
        elif os.path.exists(p):
            m = max(m, os.path.getmtime(p))
    return m


COQW = '-w -notation-overridden,-deprecated-hint-without-locality,-ambiguous-paths,-extraction'


def model_dir(pid):
    return os.path.join(OCAML_BUILD, pid)


def model_cli_path(pid):
    return os.path.join(model_dir(pid), 'model_cli')


def build_model_cli(pid, force=False):
    """extract coq/Extract/P<nn>.v and compile build/ocaml/<pid>/model_cli if a source is newer.  (ok, log)"""
    d = model_dir(pid)
    os.makedirs(d, exist_ok=True)
    exe = model_cli_path(pid)
    pv = os.path.join(COQ, 'Extract', 'P%s.v' % pid[1:])
    drv = os.path.join(OCAML_SRC, pid.lower() + '.ml')
    srcs = [os.path.join(COQ, 'Base'), os.path.join(COQ, 'Model'), os.path.join(COQ, 'Gen'),
            os.path.join(COQ, 'Extract', 'Keep.v'), pv, drv, os.path.join(OCAML_SRC, 'svutil.ml')]
    if not force and os.path.exists(exe) and os.path.getmtime(exe) >= newest_mtime(srcs):
        return True, 'up to date'
    deps = []
    for m in re.finditer(r'From\s+SV\s+Require\s+Import\s+(.*?)\.(?:\s|$)', open(pv).read(), re.S):
        for name in m.group(1).split():
            deps.append(name.replace('.', '/') + '.vo')
    ok, log = coq_build(' '.join(deps))
    if not ok:
        return False, log[-3000:]
    rc, out = sh('timeout 600 coqc -Q %s SV %s %s' % (COQ, COQW, pv), cwd=d, timeout=630)
    if rc != 0:
        return False, out[-3000:]
    sh('cp %s %s %s/' % (os.path.join(OCAML_SRC, 'svutil.ml'), drv, d))
    rc, out = sh('timeout 600 ocamlfind ocamlopt -w -a -rectypes -thread -package coq-core.kernel -linkpkg '
                 'model.mli model.ml svutil.ml %s.ml -o model_cli.new && mv model_cli.new model_cli' % pid.lower(),
                 cwd=d, timeout=630)
    if rc != 0:
        return False, out[-3000:]
    return True, out[-500:]


def build_harness(pid, profile='debug'):
    """cargo build of harness bin c<nn> against /repo's working tree (hooks enabled).  (ok, log)"""
    sh('cp %s/Cargo.lock %s/Cargo.lock' % (REPO, HARNESS))
    env = dict(ENV, RUSTFLAGS='--cfg %s -Awarnings' % GUARD)
    cmd = 'timeout 900 cargo build --offline --bin %s' % pid.lower() + (' --release' if profile == 'release' else '')
    rc, out = sh(cmd, cwd=HARNESS, timeout=930, env=env)
    return rc == 0, out[-3000:]


def spx_path(pid, profile='debug'):
    return os.path.join(TARGET, profile, pid.lower())


def run_dialogue(exe, chunk, per_case=30.0):
    """feed one line at a time and wait for its answer; a case that kills the process gives 'abort rc=..',
    one that does not answer within the limit gives 'abort timeout' (the process is killed and restarted)"""
    import select
    res = []
    p = None
    hung = 0

    def start():
        return subprocess.Popen([exe], stdin=subprocess.PIPE, stdout=subprocess.PIPE, stderr=subprocess.DEVNULL,
                                env=ENV, text=True, bufsize=1)
    for l in chunk:
        if hung >= 3:
            res.append('skipped')          # three cases of this shard hung already: the verdict is established
            continue
        if p is None or p.poll() is not None:
            p = start()
        try:
            p.stdin.write(l + '\n')
            p.stdin.flush()
        except (BrokenPipeError, OSError):
            res.append('abort rc=%s' % p.poll())
            p = None
            continue
        ready, _, _ = select.select([p.stdout], [], [], per_case)
        if not ready:
            p.kill(); p.wait()
            res.append('abort timeout')
            p = None
            hung += 1
            continue
        out = p.stdout.readline()
        if out == '':
            p.wait()
            res.append('abort rc=%s' % p.returncode)
            p = None
        else:
            res.append(out.rstrip('\n'))
    if p is not None and p.poll() is None:
        try:
            p.stdin.close()
        except OSError:
            pass
        p.wait(timeout=10)
    return res


def run_lines(exe, lines, timeout=240, shards=NPROC):
    """feed lines to `exe prop`, one result line per input line; sharded."""
    if not lines:
        return []
    n = max(1, min(shards, len(lines) // 50 or 1))
    chunks = [lines[i::n] for i in range(n)]

    def one(chunk):
        rc, out = sh([exe], inp='\n'.join(chunk) + '\n', timeout=timeout)
        res = out.split('\n')
        if res and res[-1] == '':
            res.pop()
        if len(res) != len(chunk):
            # crashed, aborted or hung mid-way: line-by-line dialogue with a per-case time limit
            res = run_dialogue(exe, chunk)
        return res
    with ThreadPoolExecutor(max_workers=n) as ex:
        outs = list(ex.map(one, chunks))
    res = [None] * len(lines)
    for k, o in enumerate(outs):
        res[k::n] = o
    return res


# ----------------------------------------------------------------- known findings
def known_findings(pid):
    """entries with status "known" for this property, from known_findings.json and known_findings.d/<pid>.json
    (both committed; never written at run time)"""
    out = []
    for p in (os.path.join(ROOT, 'known_findings.json'), os.path.join(ROOT, 'known_findings.d', pid + '.json')):
        if os.path.exists(p):
            out += [k for k in json.load(open(p)) if k.get('property') == pid and k.get('status') == 'known']
    return out


# ----------------------------------------------------------------- the generic check
class Case:
    __slots__ = ('line', 'cls', 'meta')

    def __init__(self, line, cls='', meta=None):
        self.line = line
        self.cls = cls
        self.meta = meta


def default_compare(case, impl, model):
    return impl == model


def run_check(prop, argv):
    """prop: a module with ID, gen(rng,tier)->[Case], judge(case, impl)->None|str,
    optional: compare(case, impl, model)->bool, nontrivial(case, impl)->bool, known(case, impl)->None|str,
    PROFILES, RULE, ASSUMPTIONS, TRUSTED"""
    t0 = time.time()
    pid = prop.ID
    tier = os.environ.get('VERIF_TIER', 'quick')
    replay = None
    a = list(argv)
    while a:
        x = a.pop(0)
        if x == '--tier':
            tier = a.pop(0)
        elif x == '--replay':
            replay = a.pop(0)
    seed = int(os.environ.get('VERIF_SEED', '20261001'))
    rng = random.Random(seed * 1000003 + int(pid[1:]))
    notes = []
    replays = []          # (kind, path)
    violations = 0

    consts = regen_consts()
    pf = check_property_file(pid)
    hits = forbidden_scan()
    proof_ok = pf['ok'] and not hits
    if hits:
        pf['discharged'] = 0              # an escape hatch anywhere in the development voids every obligation
    chk = None
    if tier == 'thorough' and pf['ok'] and not replay:
        chk = coqchk_property(pid)
        if not chk['ok']:
            proof_ok = False
            notes.append('coqchk: ' + chk['summary'][-300:])
    if hits:
        notes.append('forbidden constructs: ' + '; '.join(hits[:5]))
    mok, mlog = build_model_cli(pid)
    profiles = getattr(prop, 'PROFILES', {'quick': ['debug'], 'thorough': ['debug', 'release']})[tier]
    hok, hlog = build_harness(pid, profiles[0])

    cases = []
    if replay:
        rp = json.load(open(replay))
        cases = [Case(c['line'], c.get('cls', ''), c.get('meta')) for c in rp.get('cases', [])]
    elif hok and mok:
        cases = list(prop.gen(rng, tier))
    lines = [c.line for c in cases]
    compare = getattr(prop, 'compare', default_compare)
    hist = {}
    outcome_hist = {}
    seen = set()
    distinct_nontrivial = 0
    mism = []
    viols = []
    knowns = {}
    bit_exact = 0
    impl = model = []
    evaluations = 0
    listed = {k['id']: k for k in known_findings(pid) if 'id' in k}
    for profile in profiles:
        if not (hok and mok and cases):
            break
        if profile != profiles[0]:
            ok2, log2 = build_harness(pid, profile)
            if not ok2:
                hok, hlog = ok2, log2
                break
        impl = run_lines(spx_path(pid, profile), lines)
        if not model:
            model = run_lines(model_cli_path(pid), lines)
        for c, i, m in zip(cases, impl, model):
            if i == 'skipped' or m == 'skipped':
                continue
            evaluations += 1
            if profile == profiles[0]:
                hist[c.cls] = hist.get(c.cls, 0) + 1
                ok_kind = i.split(' ', 1)[0] if i else ''
                ok_kind = ok_kind if not is_hexfloat(ok_kind) else 'value'
                outcome_hist[ok_kind] = outcome_hist.get(ok_kind, 0) + 1
                h = hashlib.sha1(c.line.encode()).digest()
                nt = getattr(prop, 'nontrivial', lambda c, i: True)(c, i)
                if h not in seen and nt:
                    distinct_nontrivial += 1
                seen.add(h)
            if i == m:
                bit_exact += 1
            try:
                v = prop.judge(c, i)
            except Exception as ex:            # an answer the oracle cannot even parse is not an acceptable answer
                v = 'the implementation\'s answer could not be interpreted by the oracle (%s: %s): %s' % (
                    type(ex).__name__, str(ex)[:80], i[:80])
            if v:
                k = getattr(prop, 'known', lambda c, i, v: None)(c, i, v)
                # a finding is honoured only if known_findings.json (committed, never written at run time) lists its id
                if k and k.split()[0].rstrip(':') in listed:
                    knowns.setdefault(k.split()[0].rstrip(':'), c)
                else:
                    viols.append((c, i, m, v, profile))
            else:
                try:
                    same = compare(c, i, m)
                except Exception:
                    same = False
                if not same:
                    mism.append((c, i, m, profile))

    xc = None
    if cases and model and mok and not replay:
        xc = extraction_crosscheck(prop, pid, cases, model)
        if xc and not xc['ok']:
            proof_ok = False
            notes.append('extraction cross-check failed: %s' % json.dumps(xc)[:400])

    os.makedirs(os.path.join(ROOT, 'replays'), exist_ok=True)

    def write_replay(kind, payload):
        h = hashlib.sha1(json.dumps(payload, sort_keys=True).encode()).hexdigest()[:10]
        p = os.path.join('replays', '%s-%s-%s.json' % (pid, kind, h))
        json.dump(payload, open(os.path.join(ROOT, p), 'w'), indent=1)
        return p

    out_lines = []
    # one line per LISTED finding (whether or not this run's cases happened to witness it)
    for k in sorted(listed):
        out_lines.append('KNOWN-FINDING: property=%s %s %s%s' % (pid, k, listed[k].get('what', ''),
                                                               '' if k in knowns else ' [not witnessed by this run\'s cases]'))
    if viols:
        viols.sort(key=lambda t: len(t[0].line))
        c, i, m, v, profile = viols[0]
        shrunk = getattr(prop, 'shrink', None)
        p = write_replay('violation', {
            'property': pid, 'kind': 'property-violated-by-implementation', 'clause': v, 'profile': profile,
            'cases': [{'line': c.line, 'cls': c.cls, 'meta': c.meta}], 'impl': i, 'model': m,
            'describe': getattr(prop, 'describe', lambda c: c.line)(c),
            'others': len(viols) - 1})
        out_lines.append('VIOLATION property=%s replay=%s' % (pid, p))
        violations += 1
    elif mism or not proof_ok or not hok or not mok:
        what = []
        payload = {'property': pid, 'kind': 'no-longer-shown-to-hold', 'cases': []}
        if xc and not xc['ok']:
            what.append('extracted executable disagrees with vm_compute on the same definitions')
            payload['extraction_crosscheck'] = xc
        if not proof_ok and not (xc and not xc['ok'] and pf['ok'] and not hits):
            what.append('theorems of coq/Properties/%s.v no longer check' % pid)
            payload['proof'] = {'theorems': pf['theorems'], 'disallowed_axioms': pf['disallowed'],
                                'forbidden': hits, 'log_tail': pf['log'][-1500:]}
        if not mok:
            what.append('model_cli build failed')
            payload['model_build_log'] = mlog[-1500:]
        if not hok:
            what.append('harness does not build against /repo')
            payload['harness_build_log'] = hlog[-1500:]
        if mism:
            mism.sort(key=lambda t: len(t[0].line))
            c, i, m, profile = mism[0]
            what.append('correspondence model<->implementation broken (%d of %d cases differ)' % (len(mism), evaluations))
            payload['correspondence'] = {'first_differing_case': c.line, 'impl': i, 'model': m, 'profile': profile,
                                         'describe': getattr(prop, 'describe', lambda c: c.line)(c),
                                         'differing': len(mism)}
            payload['cases'] = [{'line': c.line, 'cls': c.cls, 'meta': c.meta}]
        payload['what'] = what
        p = write_replay('unproved', payload)
        out_lines.append('VIOLATION property=%s replay=%s no-failing-input-found' % (pid, p))
        violations += 1

    samples = [getattr(prop, 'describe', lambda c: c.line)(c) for c in cases[:3]]
    if cases:
        k = len(cases) // 2
        samples.append({'line': cases[k].line[:300], 'impl': (impl[k] if impl else '')[:300],
                        'model': (model[k] if model else '')[:300]})
    ev = {
        'property_id': pid, 'tier': tier, 'seed': seed, 'level': 'proof',
        'coverage': {
            'obligations': pf['obligations'], 'discharged': pf['discharged'],
            'checker_cmd': 'make -C coq Properties/%s.vo && coqc -Q coq SV coq/Properties/%s.v (Print Assumptions vs tools/axioms_allow.txt; forbidden-construct scan)' % (pid, pid),
            'trusted_base': getattr(prop, 'TRUSTED', []) + ['Coq 8.16.1 kernel + vm_compute', 'axioms: ' + ', '.join(pf['axioms'] or ['none'])],
            'theorems': pf['theorems'],
            'evaluations': evaluations, 'distinct_nontrivial': distinct_nontrivial,
            'rule': getattr(prop, 'RULE', ''),
            'samples': samples or ['(no cases: build failed)'],
            'class_histogram': hist, 'outcome_histogram': outcome_hist,
            'bit_exact_agreements': bit_exact, 'correspondence_mismatches': len(mism),
            'oracle_rejections': len(viols), 'known_findings_seen': sorted(knowns),
            'profiles': profiles, 'consts': consts,
            'exhaustive': bool(getattr(prop, 'EXHAUSTIVE', False)),
        },
        'assumptions': getattr(prop, 'ASSUMPTIONS', []),
        'wall_s': round(time.time() - t0, 2), 'violations': violations,
    }
    extra = getattr(prop, 'extra_evidence', None)
    if extra:
        ev['coverage'].update(extra())
    if chk:
        ev['coverage']['coqchk'] = chk['summary'][-600:]
    if xc:
        ev['coverage']['extraction_crosscheck'] = {'cases_evaluated_inside_coq_by_vm_compute': xc['checked'],
                                                   'disagreements_with_extracted_executable': xc.get('disagreements', None),
                                                   'ok': xc['ok']}
    if notes:
        ev['coverage']['notes'] = notes
    os.makedirs(os.path.join(ROOT, 'evidence'), exist_ok=True)
    json.dump(ev, open(os.path.join(ROOT, 'evidence', pid + '.json'), 'w'), indent=1, default=str)
    for l in out_lines:
        print(l)
    print('%s tier=%s seed=%d theorems=%d/%d cases=%d mismatches=%d oracle_rejections=%d known=%d wall=%.1fs'
          % (pid, tier, seed, pf['discharged'], pf['obligations'], evaluations, len(mism), len(viols), len(knowns), time.time() - t0))
    return 1 if violations else 0
