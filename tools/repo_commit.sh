#!/bin/sh
# usage: repo_commit.sh "<message>"  — run the pinned suite on /repo, commit if all 244 pass
cd /repo || exit 1
out=$(cargo test --workspace --offline 2>&1)
pass=$(echo "$out" | grep -E "^test result" | sed -E 's/.*ok\. ([0-9]+) passed.*/\1/' | awk '{s+=$1} END {print s}')
fail=$(echo "$out" | grep -cE "FAILED|^error")
echo "passed=$pass failing_lines=$fail"
if [ "$pass" = "244" ] && [ "$fail" = "0" ]; then
  git add -A . && git -c user.name=builder -c user.email=builder@example.com commit -q -m "$1" && git log --oneline | head -1
else
  echo "$out" | grep -E "FAILED|^error|panicked" | head -20
  echo "NOT COMMITTED"
fi
