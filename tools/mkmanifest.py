#!/usr/bin/env python3
# Regenerates MANIFEST.json from the table below (kept in one place so the file stays valid).
import json, os
ROOT = os.path.dirname(os.path.dirname(os.path.abspath(__file__)))
CHECKS = {
 'C18': dict(
   technique='Coq proof: textbook identities in exact arithmetic (R instance) AND a floating-point rounding bound for the executed binary64 instance (Flocq: recursive summation and the mean) + bit-for-bit differential correspondence of the extracted float instance against the Rust code + exact-rational oracle',
   text='17 theorems about the Gallina transcription of variation.rs: definitions, bounds, translation/scale laws, sample/population ratio, geometric mean as n-th root of the product, NaN guards (exact arithmetic, all samples of any length); and for the IEEE binary64 instance itself: c18_sum_list_float_error ((1+eps)^n - 1 relative bound for the left-to-right sum of finite floats without overflow), c18_sum_list_no_overflow, c18_nofnat_float_exact, c18_arith_mean_float_error (the computed mean is within ((1+eps)^(n+1) - 1) * sum|x_i| / n + 2^-1075 of the exact mean), c18_std_dev_float_error (the computed deviation is within relative (1+eps)^(n+5) - 1 of the exact deviation around the computed mean); the model is tied to the code by running its float instance bit-for-bit against the implementation on generated samples',
   note='Coq kernel; Reals axioms (sig_forall_dec, sig_not_dec, functional_extensionality_dep, classic); for the float-level theorems the standard library FloatAxioms (add_spec, div_spec, Prim2SF_valid, SF2Prim_Prim2SF, Prim2SF_SF2Prim) and the body-less kernel primitives of PrimFloat/PrimInt63 that Print Assumptions lists; Flocq; extraction + OCaml driver; Rust harness; oracle; libm exp/ln not modelled for floats',
   ref='DESIGN.md §5 C18'),
}
CHECKS['C16'] = dict(
   technique='Coq proof (neither parser model can panic: explicit usize-overflow and capacity-overflow sites, exponent cap re-read from the source; everything either parser accepts is a rendering of a well-formed source of the documented grammar and is read with exactly the written value) + exhaustive-string differential correspondence + independent grammar / conventional-reading oracle',
   text='6 theorems for all strings, all arithmetic instances and all Unicode classifications: c16_simple_total, c16_inter_total, c16_simple_power_cap; c16_simple_accepts_only_grammar and c16_inter_accepts_only_grammar (acceptance => the whitespace-stripped text is a rendering of the documented grammar; for the multivariate parser the result is term for term the canonical form of that source), c16_simple_fidelity (R: the accepted polynomial takes at every point the value of the text; the empty text is 0); model tied to the code by exhaustive agreement on all strings over the 15-symbol alphabet up to length 4 (thorough 5) plus mutated grammatical text with classified Unicode and overflow numerals',
   note='Coq kernel; no axioms for the discrete theorems, Reals axioms for c16_simple_fidelity; extraction + OCaml driver; Rust harness; Python oracle (regex recogniser of the documented grammars + conventional arithmetic reader); Unicode class table measured against Rust on every run',
   ref='DESIGN.md §5 C16')

COMMON_NOTE = 'Coq 8.16.1 kernel (coqchk in the thorough tier); axioms as printed by Print Assumptions and allow-listed in tools/axioms_allow.txt (Reals: sig_forall_dec, sig_not_dec, functional_extensionality_dep, classic); extraction (ExtrOcamlBasic, ExtrOCamlFloats, ExtrOCamlInt63) + ocaml driver; Rust harness; exact-rational Python oracle; theorems are about the Gallina transcription in exact arithmetic, rounding is measured not proved'
CHECKS['C01'] = dict(
   technique='Coq proof (every rendering of the documented grammar is accepted with the stated coefficient vector; converse; evaluation = sum c_k x^k in exact arithmetic AND, for the binary64 instance, within ((1+eps)^(2n) - 1) * sum |c_k||x|^k (Flocq)) + bit-for-bit differential correspondence of the extracted parser/evaluator against the Rust code + exact-rational oracle',
   text='10 theorems: c01_eval_simple_float_error and c01_powi_float_error (binary64 instance, products in the normal range, no overflow: the forward rounding bound of evaluation and of the square-and-multiply power), c01_okmul_by_leb; for all strings: c01_accept (every string whose whitespace-stripped form is a rendering of the documented univariate grammar parses to dense_coeffs of its terms, for every arithmetic instance and Unicode classification), c01_dense_nth/length (like powers summed in source order, missing powers zero, coefficient k at position k), c01_eval_sum, c01_meaning (R: value of the string at every point), c01_spacing; model tied to the code by grammar-directed strings (all spellings, Unicode letters and whitespace) compared bit for bit',
   note=COMMON_NOTE + '; the float-level theorems use FloatAxioms (add_spec, mul_spec, leb_spec, abs_spec, eqb_spec, Prim2SF_valid, SF2Prim_Prim2SF, Prim2SF_SF2Prim) and list the PrimFloat/PrimInt63 kernel primitives; Flocq', ref='DESIGN.md §5 C01')
CHECKS['C05'] = dict(
   technique='Coq proof with Coquelicot (composite Simpson 1/3+3/8 error bound |b-a| h^4 max|f\'\'\'\'|/80 for every C4 integrand and every n>=2; exact for cubics; trapezoid exact for linear; Romberg exact-if-Ok and never panics for every cap/tolerance on a panic-aware model) + bit-for-bit correspondence + exact oracle',
   text='16 theorems, none partial: c05_simpson_error (for every integrand with four derivatives, every interval and every n >= 2 incl. odd n with the spliced 3/8 panel: |result - integral| <= |b-a| h^4 max|f\'\'\'\'| / 80) and its polynomial corollary for every degree; exactness of definite_integral for every cubic, interval and n>=2 (even/odd/3) and of the one-segment trapezoid for linear integrands; Romberg returns the exact integral whenever it returns for degree<=3, converges for cap>=3, and never panics for ANY cap and tolerance and any arithmetic instance (checked table indices, checked power); the bound is tight at n=3',
   note=COMMON_NOTE, ref='DESIGN.md §5 C05')
CHECKS['C14'] = dict(
   technique='Coq proof of the full invariant (Q^T Q = I, Q H Q^T = A, zeros below the subdiagonal) through every Householder step of the functional-matrix model + bit-for-bit correspondence + exact-rational residual oracle',
   text='11 theorems in exact arithmetic for every n and every real matrix: c14_similarity (H = Q^T A Q, A Q = Q H), c14_symmetric_tridiagonal (symmetric input gives a symmetric tridiagonal H), c14_eigenpairs (eigenpairs of H are eigenpairs of A carried by Q), reflector facts (tau v^T v = 2, symmetric, involutive, maps x to +-|x| e1), one-step invariant preservation including the zero-norm skip, c14_main (orthogonal similarity to Hessenberg form), trace and Frobenius norm preserved, n<=2 unchanged, non-square rejected; float instance agrees bit for bit with the Rust code on dense/sparse/scaled/zero-subcolumn matrices up to 10x10',
   note=COMMON_NOTE, ref='DESIGN.md §5 C14')
CHECKS['C20'] = dict(
   technique='Coq proof that both parsers are invariant under any re-spacing (all Unicode whitespace) and that the modelled expansion equals the runtime value under measured assumptions R1/R2 + compiler-in-the-loop differential check (generated crates expanded by rustc vs runtime parser vs extracted model)',
   text='8 theorems: whitespace invariance of parse_simple/parse_inter, macro = runtime under R1 (token printer changes only whitespace) and R2 ({:?} floats read back exactly), error half, never-silently-different; each run builds crates with hundreds of invocations (5..600 chars, so the token printer wraps them) and compares every coefficient/exponent bit for bit, plus a crate of ungrammatical invocations checked through rustc JSON diagnostics; R1/R2 measured on every text',
   note=COMMON_NOTE + '; R1/R2 are Section hypotheses measured at run time; rustc and cargo are in the loop', ref='DESIGN.md §5 C20')

CHECKS['C02'] = dict(
   technique='Coq proof (documented multivariate grammar accepted with canonical terms; converse; evaluation = sum of coefficient times product of value^exponent; missing variable is an error; agreement with the univariate parser) + differential correspondence + exact/50-digit oracle',
   text='9 theorems for all strings/assignments: c02_accept_canonical (every rendering of the documented grammar parses to terms_of src with variables stably sorted and merged, for every arithmetic instance), sortedness/set-of-letters corollaries, c02_eval (R: value = sum coef * prod Rpowf), natural-domain reading of powf, c02_missing_var, totality of eval_univariate incl. constant polynomials, c02_agree_univariate (both parsers denote the same function on the common sub-language); structure and coefficients/exponents compared bit for bit, libm powf compared under an envelope',
   note=COMMON_NOTE + '; f64::powf (libm) is modelled exactly only for integral exponents, otherwise judged by a 50-digit decimal oracle', ref='DESIGN.md §5 C02')
CHECKS['C03'] = dict(
   technique='Coq proof with Coquelicot (is_derive of the evaluated polynomial for both types, shape of derivative terms, closure of well-formedness under all derive/integrate entry points) + bit-for-bit differential correspondence through the real parsers + exact symbolic oracle',
   text='12 theorems: c03_simple_derivative_float_error (binary64 instance, Flocq: the evaluated derivative of the univariate type is within ((1+eps)^(2m+1) - 1) * sum k|c_k||x|^(k-1) of the exact derivative, for finite normal-range intermediates); in exact arithmetic: c03_simple and c03_partial (the returned derivative evaluates to the true (partial) derivative at every point of the natural domain, terms without the variable vanish, no zero exponent remains), absent/multi-letter variables give the zero polynomial, c03_closed and c03_closed_univariate (results are well-formed and usable through every entry point, incl. constant polynomials, to any chain depth); chains of derive/integrate/evaluate to depth 3 compared bit for bit',
   note=COMMON_NOTE, ref='DESIGN.md §5 C03')
CHECKS['C04'] = dict(
   technique='Coq proof with Coquelicot (antiderivative property, zero constant of integration, analytical_integral = RInt, additivity and antisymmetry) + bit-for-bit differential correspondence + exact oracle',
   text='19 theorems: c04_definite_float_error (binary64 instance, Flocq: the computed F(b) - F(a) of the univariate type is within ((1+eps)^(2n+4) - 1) * (sum|c_k||b|^(k+1)/(k+1) + sum|c_k||a|^(k+1)/(k+1)) of the exact value, for finite normal-range intermediates); in exact arithmetic: integral coefficient 0 is 0 and every multivariate integral term contains the variable, simple_derivative (simple_integral p) = p, is_derive of the integral equals the polynomial for both types (no exponent -1), well-formedness closure, analytical_integral p a b = RInt (eval p) a b for both types, additivity over adjacent intervals and sign change under swapped bounds (also on the returned values)',
   note=COMMON_NOTE, ref='DESIGN.md §5 C04')
CHECKS['C11'] = dict(
   technique='Coq proof over any commutative ring (dot = algebraic product for every conforming shape incl. 1x1 and empty dimensions, scalar cases, shape errors, operator forms, associativity/transpose/identity laws) AND a floating-point rounding bound for every entry of the binary64 product (Flocq) + exhaustive shape-pair correspondence on i64 (exact) and f64 (bit for bit)',
   text='11 theorems on the flat-buffer record model: c11_dot_float_error (binary64 instance, all conforming shapes and the three code paths: every entry is within ((1+eps)^(n+1) - 1) * sum|a_ik b_kj| + n (1+eps)^n 2^-1075 of the exact sum when no product or partial sum overflows), c11_dot_float_no_overflow, c11_dot_fl_conforming; c11_conforming, c11_scalar_left/right, c11_shape_error (never a panic on well-formed arrays), c11_operator (four Mul forms = dot or the empty array), c11_scalar_ops, c11_transpose, c11_laws (identity, transpose of a product, full associativity); all 1296 shape pairs in 0..5 x 0..5 x ownership forms x scalar forms run against the Rust code',
   note='Coq kernel; the ring-level theorems are closed under the global context; the float-level ones use the Reals axioms, FloatAxioms (add_spec, mul_spec, Prim2SF_valid, SF2Prim_Prim2SF, Prim2SF_SF2Prim) and list the PrimFloat/PrimInt63 kernel primitives; Flocq; extraction + OCaml driver; Rust harness; Python integer/Fraction oracle', ref='DESIGN.md §5 C11')
CHECKS['C12'] = dict(
   technique='Coq refinement proof (flat-buffer state machine refines the plain grid for every operation, lifted to all operation sequences by induction) + exhaustive-depth and long random histories replayed on the real Arr2D<i64>',
   text='5 theorems: c12_inv (length inner = height*width preserved), c12_refine (every operation: same output incl. Err/Panic, abstraction commutes, state unchanged on failure), c12_observe (every observation equals the grid\'s, incl. Display text), c12_histories (all operation sequences), c12_invalid_documented (the failing outputs are exactly the documented ones); sequences to depth 3 (thorough 4) from all shapes 0..3 x 0..3 plus random length-40 histories, full observation compared after every step',
   note='Coq kernel, no axioms; extraction + OCaml driver; Rust harness; independent Python grid oracle; not covered: ConversionFailed in TryFrom, f64 histories, usize overflow of height*width', ref='DESIGN.md §5 C12')
CHECKS['C13'] = dict(
   technique='Coq proof (panic-aware model never panics and terminates within MAX_ITERATIONS for every matrix and arithmetic; shape/normalisation/Rayleigh-quotient facts on Ok; exit means small relative change) + bit-for-bit correspondence incl. runs to the iteration cap + exact residual/eigenvalue oracle',
   text='15 theorems: c13_residual_bound / c13_residual_accuracy_pm / _start / _start_ev (EIGENVECTOR RESIDUAL: ||A v - lambda v||^2 < (1+g) tol lam_0^2 ||v||^2, i.e. C sqrt(tol) with C <= sqrt(6), for the returned pair under the same hypotheses), c13_stop_rule_accuracy / _after / _pm / _start (the STOPPING RULE implies the eigenvalue accuracy |lambda - lam_0| < tol |lam_0| with C = 1, under the explicit eigen-decomposition with gap g <= 1/2, once the previous estimate is within (1-g)|lam_0|/2 of lam_0; in particular for EVERY Ok answer of power_method when 4 g^2 sum_{i>=1} c_i^2 <= (1-g) c_0^2), c13_rayleigh_error_contracts (inside that basin the error contracts by 2 g^2 per iteration, the basin is invariant), c13_rayleigh_error_bound (under an explicit orthonormal eigen-decomposition with |lam_i| <= g |lam_0|: the k-th Rayleigh quotient of the model\'s own normalised iteration satisfies |rho_k - lam_0| c_0^2 <= 2 |lam_0| g^(2k+2) sum c_i^2), c13_rayleigh_residual (the returned eigenvalue minimises the residual of the returned vector), c13_total (all instances: no panic, at most MAX_ITERATIONS iterations, n x 1 vector or NoConvergence, non-square/empty rejected), c13_shape_norm (R: largest component 1, lambda = Rayleigh quotient), c13_exit_means_small_change, c13_accuracy_partial (n = 1 only; the spectral accuracy bounds are decided by the oracle on symmetric Q D Q^T with gap <= 1/2)',
   note=COMMON_NOTE + '; an exit before the basin is entered (start vector almost orthogonal to the dominant eigenvector), the spectral theorem and rounding are measured by the oracle, not proved', ref='DESIGN.md §5 C13')

CHECKS['C08'] = dict(
   technique='Coq proof (Gaussian elimination with scaled partial pivoting on functional matrices: any returned vector solves A x = b; every matrix with a non-trivial left null vector is refused for every right-hand side; shape errors, no panic; triangular substitutions) + bit-for-bit correspondence on all container types + exact-rational oracle',
   text='12 theorems (new: c08_unique, an accepted system has no left or right null vector and the returned vector is its only solution): for the binary64 instance (Flocq) the componentwise BACKWARD error of the exported substitution routines: c08_forward_substitution_float_error / c08_back_substitution_float_error (residual of every row <= ((1+eps)^(n+1) - 1) * sum |T_ij||x_j| for finite, normal-range intermediate values), c08_okdiv_by_leb; in exact arithmetic for every n, A, b, tol>0: c08_nonsingular_accepted(_r) (a non-singular matrix is accepted for every sufficiently small tolerance and every right-hand side; with c08_singular_refused: for small tolerances a solution is returned exactly when A is non-singular), c08_solves (via the effective-system invariant of the in-place elimination that leaves stale sub-diagonal entries), c08_lists (at the extracted list boundary), c08_singular_refused (no determinants: the flag is independent of b), c08_shape (non-square / length mismatch / empty are errors, never a panic), c08_substitution(_triangular); float instance agrees bit for bit with the Rust code on exhaustive 2x2, sampled 3x3, random/row-scaled/rank-deficient systems up to 10x10 across Vec<Vec<f64>>, &Vec<Vec<i32>>, &Arr2D<f64>, &Arr2D<i32>',
   note=COMMON_NOTE + '; the backward error of the elimination itself and the floating-point version of "well-conditioned systems are never refused" are measured by the oracle; float-level theorems use FloatAxioms and list the PrimFloat/PrimInt63 primitives; Flocq', ref='DESIGN.md §5 C08')
CHECKS['C15'] = dict(
   technique='Coq proof (normal equations of the closed-form line and of the polynomial fit via c08_solves, optimality identity SSE(c\')=SSE(c)+sum(p_c-p_c\')^2, statistics formulas, gradient-descent error recurrence) + bit-for-bit correspondence + exact oracle scaled by the moment-matrix condition',
   text='13 theorems, none partial: c15_gd_contraction (Euclidean error to the optimum contracts by rho per step for any rho dominating the eigenvalues of I - alpha H), c15_gd_stable_step, c15_gd_converges; c15_ls_normal, c15_poly_normal, c15_poly_outcomes, c15_optimal (no other coefficients give a smaller sum of squares), c15_order1_is_line, c15_order_monotone, c15_stats (r2, std_err, predict are the textbook functions of the returned coefficients for all three regressors), c15_gd_iterates/recurrence (e\' = (I - alpha H) e with the normal-equation solution as fixed point); pivot tolerance re-read from polynomial.rs into the model on every run',
   note=COMMON_NOTE, ref='DESIGN.md §5 C15')

CHECKS['C06'] = dict(
   technique='Coq proof (loop as structural recursion on the cap: soundness of every returned value, initial-guess rejection, no panic / no endless loop for every arithmetic, bracket invariants, IVT-based location of a root, exit-before-cap implies Ok under a Lipschitz condition) + bit-for-bit correspondence (libm-bridged for the multivariate type) + exact oracle',
   text='13 theorems (incl. c06_finds_root_away_from_zero: the converse in exact arithmetic for brackets away from 0): c06_sound (Ok x => lo <= x <= hi and |g(x)| < the residual gate re-read from the source), both polynomial types and modes, c06_init_rejected / reversed bracket, c06_total (all instances: never a panic, at most cap+1 bodies), sign-change invariant, root-at-lower-end and stale-zero repairs as positive theorems, c06_finds_root_partial + c06_exit_before_cap_is_ok (converse up to "the loop exits before the cap", which the oracle decides with cap >= 1200)',
   note=COMMON_NOTE + '; one known finding (F-C06-LOOSE-TOL: coarse tolerance exits before the fixed 1e-4 residual gate can pass)', ref='DESIGN.md §5 C06')
CHECKS['C07'] = dict(
   technique='Coq proof (Newton step and relative-tolerance facts on every Ok, Taylor-Lagrange second-order residual bound for polynomial targets, no panic and at most max(cap,1) iterations, exact-root acceptance, one-step monotonicity) + bit-for-bit correspondence + exact oracle',
   text='11 theorems (new: c07_nrm_reflect, the solver model commutes with x -> -x, errors included; c07_converges_to_extreme_root_mirror, convergence to the smallest root < 0 from the left): c07_converges_to_extreme_root (exact arithmetic: started right of the largest root R > 0 of c*prod(x - r_i) with all roots real, with an explicit budget, an x is returned with R <= x and (x-R)*100 <= (degree-1)*tol*x), c07_rdprod_is_derivative, c07_sound and c07_sound_simple (Ok x => x = x\' - g x\'/g\' x\', |x - x\'|*100 < tol*|x| or g x = 0, and g x = g\'\'(xi)/2 (x-x\')^2 hence the stated residual bound), c07_total (all instances), c07_zero_root, c07_stale_100_repaired, c07_monotone_partial (one step under convexity); the mirror case left of the smallest root, extreme roots <= 0 and float effects are decided by the oracle',
   note=COMMON_NOTE + '; one known finding (F-C07-OVERFLOW: coefficients >= 2^1000)', ref='DESIGN.md §5 C07')
CHECKS['C17'] = dict(
   technique='Coq proof (exact {:.p} formatting of binary64 in integer arithmetic with its half-to-even rounding contract; string-level round trips of Display through the parser models for default and every precision) + exact text correspondence with Rust formatting + read-back oracle through the real parsers',
   text='10 theorems, none partial: c17_fmt_prec_exact/sign and c17_precision_number (printed decimals read back within 1/2*10^-p), c17_simple_default and c17_inter_default/term (identical coefficients and exponents under H1/H2 on the shortest-float printer, which are measured on every printed float), c17_precision_simple / c17_precision_inter (every precision), c17_model_string (to_polynomial_string), zero polynomial cases; model text equals Rust text exactly on all cases incl. ties, subnormals, -0.0',
   note=COMMON_NOTE + '; H1/H2 about Rust\'s shortest float formatting are Section hypotheses measured at run time', ref='DESIGN.md §5 C17')

CHECKS['C09'] = dict(
   technique='Coq proof (right-looking invariant with the stored Schur complement: L U = P A, shapes, |l_ij| <= 1, pivots above the relative threshold; left/right null vectors are refused; Doolittle LU reconstructs A and errs exactly on a singular leading block) + bit-for-bit correspondence on all container types + exact determinant/minor oracle',
   text='15 theorems: the binary64 backward-error theorems c09_lu_float_backward_error and c09_plu_float_backward_error (Flocq: |L U - A| resp. |L U - P A| <= ((1+eps)^n - 1)|L||U| componentwise and all entries finite, for the executed float instances of lu and of the pivoted plu, row interchanges included, when no step overflows or underflows; via c09_lu_recurrences / c09_plu_recurrences which hold for every number type) and 11 in exact arithmetic for every n: c09_plu_shape, c09_plu_reconstruct, c09_plu_pivots (threshold n*eps*max|a| re-derived from the code), c09_plu_singular(_right), c09_lu_reconstruct, c09_lu_pivots, c09_lu_zero_minor(_right), c09_lu_err_iff_minor (full characterisation), c09_nonsquare; exhaustive 2x2/3x3 small-integer matrices (thorough: all 1.95M 3x3 with entries -2..2), random/permutation-heavy/scaled/rank-deficient up to 10x10',
   note=COMMON_NOTE + '; must-factor and the derivation of the no-overflow hypotheses from A alone are measured by the oracle; one known finding (F21: rounding residue lets some exactly singular -2..2 matrices of order >= 4 through)', ref='DESIGN.md §5 C09')
CHECKS['C10'] = dict(
   technique='Coq proof (inverse on top of the PLU and substitution models: A B = I and B A = I whenever a value is returned; error cases; uniqueness form of the involution) + bit-for-bit correspondence + exact rational inverse oracle',
   text='7 theorems: c10_right_left (both products are the identity, for every pivoting pattern incl. non-symmetric permutations), c10_errors (non-square, singular via null vectors, 0x0 is Ok, never a panic), c10_involutive_partial (if both inversions succeed the second returns A entrywise) with a proved counterexample showing the relative pivot threshold can refuse the second inversion, c10_unique (any left or right inverse equals the returned matrix), c10_solves (B b is the one solution of A x = b; trivial kernel), c10_product (inverse of a product = reversed product of inverses); exhaustive small-integer 2x2/3x3, cyclic permutations, i32 and f64 elements, matrices scaled by 2^+-60',
   note=COMMON_NOTE + '; rounding-scaled residual bounds and the round trip for well-conditioned A are measured by the oracle; one known finding (F21)', ref='DESIGN.md §5 C10')

CHECKS['C19'] = dict(
   technique='Coq proof (panic-aware lexer/Pratt-parser/fold/render model: totality with fuel; full simulation between precedence climbing and a stratified reference reader incl. juxtaposition, prefix minus and functions; fold soundness without premise; render is the inverse of the parser: display round trip up to value for every number-free text and tree) + exhaustive token-sequence correspondence through a cfg hook + independent Python reference reader/evaluator',
   text='8 theorems: c19_total (all number types: never a panic, fuel never runs out), c19_parser_reads and c19_parser_reads_folded (every parse over numbers, variables, constants, functions, + - * / ^ !, unary minus, parentheses and juxtaposition denotes the conventional reading, all lengths and nestings), c19_fold_sound and c19_fold_idempotent, c19_display_roundtrip_partial / _trees (rendering a parsed tree and parsing the text again denotes the same function at every point, for all text without number tokens and all number-free trees incl. functions, prefix minus, postfix, juxtaposition, % and explicit cdot), c19_display_roundtrip_exact (fully parenthesised fragment); binding powers tied to the source table through Gen/Consts.v; every token sequence over the 15 token kinds up to length 4 (readable ones to 5; thorough 5/6) plus random trees and arbitrary strings run against the real code',
   note=COMMON_NOTE + '; the display round trip for trees containing numbers (shortest-float printing, 4x / x^2 shorthands) is measured by the check on every case, not proved', ref='DESIGN.md §5 C19')
NOT_APPLICABLE = {}
ALL = ['C%02d' % i for i in range(1, 21)]
PENDING_REASON = 'not claimed yet in this revision: model/proof under construction (see DESIGN.md §9); no check is registered so nothing is asserted'

def main():
    checks = []
    for pid in sorted(CHECKS):
        c = CHECKS[pid]
        checks.append({
            'property_id': pid,
            'quick_cmd': './check %s --tier quick' % pid,
            'thorough_cmd': './check %s --tier thorough' % pid,
            'evidence_file': 'evidence/%s.json' % pid,
            'replay_cmd_template': './check %s --replay {path}' % pid,
            'engine': 'coq-model',
            'level_claimed': {'category': 'proof', 'text': c['text'], 'design_ref': c['ref']},
            'level_note': c['note'],
            'technique': c['technique'],
        })
    na = []
    for pid in ALL:
        if pid in CHECKS:
            continue
        na.append({'property_id': pid, 'reason': NOT_APPLICABLE.get(pid, PENDING_REASON)})
    m = {
        'version': 1,
        'setup_cmd': './setup.sh',
        'hooks': {
            'guard': 'spindalis_verif',
            'enable': 'RUSTFLAGS="--cfg spindalis_verif" (set by tools/lib.py when it builds harness/ against /repo)',
            'baseline_off_cmd': 'cd /repo && cargo test --workspace --no-fail-fast --offline',
            'source_commits': ['f9556e6'],
            'add_only': True,
        },
        'engines': [{
            'name': 'coq-model', 'path': 'coq/',
            'serves_properties': sorted(CHECKS),
            'kind_free_text': 'Coq 8.16 model (coq/Model), theorems (coq/Proofs, pinned in coq/Properties), extracted to OCaml (build/ocaml/model_cli) and run against the Rust harness (harness/) by ./check',
        }],
        'checks': checks,
        'not_applicable': na,
        'notes': 'See DESIGN.md.  ./check <id> regenerates constants from /repo, re-checks the pinned theorems and their assumptions, rebuilds the harness from /repo\'s working tree, and runs model and implementation on the same generated inputs.',
    }
    json.dump(m, open(os.path.join(ROOT, 'MANIFEST.json'), 'w'), indent=1)

if __name__ == '__main__':
    main()
