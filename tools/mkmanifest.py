#!/usr/bin/env python3
# Regenerates MANIFEST.json from the table below (kept in one place so the file stays valid).
import json, os
ROOT = os.path.dirname(os.path.dirname(os.path.abspath(__file__)))
CHECKS = {
 'C18': dict(
   technique='Coq proof (R instance, Coquelicot-free Reals) of the textbook identities + differential correspondence of the float instance (extracted OCaml) against the Rust code + exact-rational oracle',
   text='11 theorems about the Gallina transcription of variation.rs in exact arithmetic (definitions, bounds, translation/scale laws, sample/population ratio, geometric mean as n-th root of the product, NaN guards), for all samples of any length; the model is tied to the code by running its float instance bit-for-bit against the implementation on generated samples; rounding is measured by an exact-rational oracle, not proved',
   note='Coq kernel; Reals axioms (sig_forall_dec, sig_not_dec, functional_extensionality_dep, classic); extraction + OCaml driver; Rust harness; oracle; libm exp/ln not modelled for floats',
   ref='DESIGN.md §5 C18'),
}
CHECKS['C16'] = dict(
   technique='Coq proof that neither parser model can reach a panic (explicit overflow/allocation sites, exponent cap) + differential correspondence of the extracted parsers against the Rust parsers on an exhaustive string space + independent grammar/conventional-reading oracle',
   text='theorems for all strings and all Unicode classifications: parse_simple and parse_inter never panic (the model keeps the usize-overflow and capacity-overflow sites; the proof needs the exponent cap), every accepted power is within the cap; the model is tied to the code by exhaustive agreement on all strings over the 15-symbol alphabet up to length 4 (thorough 5) plus mutated grammatical text with classified Unicode; acceptance-implies-fidelity is decided on the implementation by an independent recogniser of the documented grammars and a conventional arithmetic reader',
   note='Coq kernel, no axioms; extraction + OCaml driver; Rust harness; Python oracle; Unicode class table measured against Rust on every run',
   ref='DESIGN.md §5 C16')

COMMON_NOTE = 'Coq 8.16.1 kernel (coqchk in the thorough tier); axioms as printed by Print Assumptions and allow-listed in tools/axioms_allow.txt (Reals: sig_forall_dec, sig_not_dec, functional_extensionality_dep, classic); extraction (ExtrOcamlBasic, ExtrOCamlFloats, ExtrOCamlInt63) + ocaml driver; Rust harness; exact-rational Python oracle; theorems are about the Gallina transcription in exact arithmetic, rounding is measured not proved'
CHECKS['C01'] = dict(
   technique='Coq proof (every rendering of the documented grammar is accepted with the stated coefficient vector; converse; evaluation = sum c_k x^k) + bit-for-bit differential correspondence of the extracted parser/evaluator against the Rust code + exact-rational oracle',
   text='theorems for all strings: c01_accept (every string whose whitespace-stripped form is a rendering of the documented univariate grammar parses to dense_coeffs of its terms, for every arithmetic instance and Unicode classification), c01_dense_nth/length (like powers summed in source order, missing powers zero, coefficient k at position k), c01_eval_sum, c01_meaning (R: value of the string at every point), c01_spacing; model tied to the code by grammar-directed strings (all spellings, Unicode letters and whitespace) compared bit for bit',
   note=COMMON_NOTE, ref='DESIGN.md §5 C01')
CHECKS['C05'] = dict(
   technique='Coq proof (Simpson 1/3+3/8 composite exact for cubics for every n>=2, trapezoid exact for linear, Romberg exact-if-Ok and never panics for every cap/tolerance on a panic-aware model; degree-4 error bound) + bit-for-bit correspondence + exact oracle for the error bound on degree 4..8',
   text='14 theorems: exactness of definite_integral for every cubic, interval and n>=2 (even/odd/3) and of the one-segment trapezoid for linear integrands; Romberg returns the exact integral whenever it returns for degree<=3, converges for cap>=3, and never panics for ANY cap and tolerance and any arithmetic instance (checked table indices, checked power); the h^4/80 error bound proved for degree 4 (tight at n=3), oracle-checked for degree 5..8',
   note=COMMON_NOTE + '; Simpson error bound for degree 5..8 is measured by the oracle only (c05_simpson_error_partial)', ref='DESIGN.md §5 C05')
CHECKS['C14'] = dict(
   technique='Coq proof of the full invariant (Q^T Q = I, Q H Q^T = A, zeros below the subdiagonal) through every Householder step of the functional-matrix model + bit-for-bit correspondence + exact-rational residual oracle',
   text='8 theorems in exact arithmetic for every n and every real matrix: reflector facts (tau v^T v = 2, symmetric, involutive, maps x to +-|x| e1), one-step invariant preservation including the zero-norm skip, c14_main (orthogonal similarity to Hessenberg form), trace and Frobenius norm preserved, n<=2 unchanged, non-square rejected; float instance agrees bit for bit with the Rust code on dense/sparse/scaled/zero-subcolumn matrices up to 10x10',
   note=COMMON_NOTE, ref='DESIGN.md §5 C14')
CHECKS['C20'] = dict(
   technique='Coq proof that both parsers are invariant under any re-spacing (all Unicode whitespace) and that the modelled expansion equals the runtime value under measured assumptions R1/R2 + compiler-in-the-loop differential check (generated crates expanded by rustc vs runtime parser vs extracted model)',
   text='8 theorems: whitespace invariance of parse_simple/parse_inter, macro = runtime under R1 (token printer changes only whitespace) and R2 ({:?} floats read back exactly), error half, never-silently-different; each run builds crates with hundreds of invocations (5..600 chars, so the token printer wraps them) and compares every coefficient/exponent bit for bit, plus a crate of ungrammatical invocations checked through rustc JSON diagnostics; R1/R2 measured on every text',
   note=COMMON_NOTE + '; R1/R2 are Section hypotheses measured at run time; rustc and cargo are in the loop', ref='DESIGN.md §5 C20')
NOT_APPLICABLE = {}
ALL = ['C%02d' % i for i in range(1, 21)]
PENDING_REASON = 'not claimed yet in this revision: model/proof under construction (see DESIGN.md §9); no check is registered so nothing is asserted'

def main():
    checks = []
    for pid in sorted(CHECKS):
        c = CHECKS[pid]
        checks.append({
            'property_id': pid,
            'quick_cmd': './check %s --tier quick' % pid,
            'thorough_cmd': './check %s --tier thorough' % pid,
            'evidence_file': 'evidence/%s.json' % pid,
            'replay_cmd_template': './check %s --replay {path}' % pid,
            'engine': 'coq-model',
            'level_claimed': {'category': 'proof', 'text': c['text'], 'design_ref': c['ref']},
            'level_note': c['note'],
            'technique': c['technique'],
        })
    na = []
    for pid in ALL:
        if pid in CHECKS:
            continue
        na.append({'property_id': pid, 'reason': NOT_APPLICABLE.get(pid, PENDING_REASON)})
    m = {
        'version': 1,
        'setup_cmd': './setup.sh',
        'hooks': {
            'guard': 'spindalis_verif',
            'enable': 'RUSTFLAGS="--cfg spindalis_verif" (set by tools/lib.py when it builds harness/ against /repo)',
            'baseline_off_cmd': 'cd /repo && cargo test --workspace --no-fail-fast --offline',
            'source_commits': ['f9556e6'],
            'add_only': True,
        },
        'engines': [{
            'name': 'coq-model', 'path': 'coq/',
            'serves_properties': sorted(CHECKS),
            'kind_free_text': 'Coq 8.16 model (coq/Model), theorems (coq/Proofs, pinned in coq/Properties), extracted to OCaml (build/ocaml/model_cli) and run against the Rust harness (harness/) by ./check',
        }],
        'checks': checks,
        'not_applicable': na,
        'notes': 'See DESIGN.md.  ./check <id> regenerates constants from /repo, re-checks the pinned theorems and their assumptions, rebuilds the harness from /repo\'s working tree, and runs model and implementation on the same generated inputs.',
    }
    json.dump(m, open(os.path.join(ROOT, 'MANIFEST.json'), 'w'), indent=1)

if __name__ == '__main__':
    main()
