#!/usr/bin/env python3
# Regenerates MANIFEST.json from the table below (kept in one place so the file stays valid).
import json, os
ROOT = os.path.dirname(os.path.dirname(os.path.abspath(__file__)))
CHECKS = {
 'C18': dict(
   technique='Coq proof (R instance, Coquelicot-free Reals) of the textbook identities + differential correspondence of the float instance (extracted OCaml) against the Rust code + exact-rational oracle',
   text='11 theorems about the Gallina transcription of variation.rs in exact arithmetic (definitions, bounds, translation/scale laws, sample/population ratio, geometric mean as n-th root of the product, NaN guards), for all samples of any length; the model is tied to the code by running its float instance bit-for-bit against the implementation on generated samples; rounding is measured by an exact-rational oracle, not proved',
   note='Coq kernel; Reals axioms (sig_forall_dec, sig_not_dec, functional_extensionality_dep, classic); extraction + OCaml driver; Rust harness; oracle; libm exp/ln not modelled for floats',
   ref='DESIGN.md §5 C18'),
}
CHECKS['C16'] = dict(
   technique='Coq proof that neither parser model can reach a panic (explicit overflow/allocation sites, exponent cap) + differential correspondence of the extracted parsers against the Rust parsers on an exhaustive string space + independent grammar/conventional-reading oracle',
   text='theorems for all strings and all Unicode classifications: parse_simple and parse_inter never panic (the model keeps the usize-overflow and capacity-overflow sites; the proof needs the exponent cap), every accepted power is within the cap; the model is tied to the code by exhaustive agreement on all strings over the 15-symbol alphabet up to length 4 (thorough 5) plus mutated grammatical text with classified Unicode; acceptance-implies-fidelity is decided on the implementation by an independent recogniser of the documented grammars and a conventional arithmetic reader',
   note='Coq kernel, no axioms; extraction + OCaml driver; Rust harness; Python oracle; Unicode class table measured against Rust on every run',
   ref='DESIGN.md §5 C16')
NOT_APPLICABLE = {}
ALL = ['C%02d' % i for i in range(1, 21)]
PENDING_REASON = 'not claimed yet in this revision: model/proof under construction (see DESIGN.md §9); no check is registered so nothing is asserted'

def main():
    checks = []
    for pid in sorted(CHECKS):
        c = CHECKS[pid]
        checks.append({
            'property_id': pid,
            'quick_cmd': './check %s --tier quick' % pid,
            'thorough_cmd': './check %s --tier thorough' % pid,
            'evidence_file': 'evidence/%s.json' % pid,
            'replay_cmd_template': './check %s --replay {path}' % pid,
            'engine': 'coq-model',
            'level_claimed': {'category': 'proof', 'text': c['text'], 'design_ref': c['ref']},
            'level_note': c['note'],
            'technique': c['technique'],
        })
    na = []
    for pid in ALL:
        if pid in CHECKS:
            continue
        na.append({'property_id': pid, 'reason': NOT_APPLICABLE.get(pid, PENDING_REASON)})
    m = {
        'version': 1,
        'setup_cmd': './setup.sh',
        'hooks': {
            'guard': 'spindalis_verif',
            'enable': 'RUSTFLAGS="--cfg spindalis_verif" (set by tools/lib.py when it builds harness/ against /repo)',
            'baseline_off_cmd': 'cd /repo && cargo test --workspace --no-fail-fast --offline',
            'source_commits': ['f9556e6'],
            'add_only': True,
        },
        'engines': [{
            'name': 'coq-model', 'path': 'coq/',
            'serves_properties': sorted(CHECKS),
            'kind_free_text': 'Coq 8.16 model (coq/Model), theorems (coq/Proofs, pinned in coq/Properties), extracted to OCaml (build/ocaml/model_cli) and run against the Rust harness (harness/) by ./check',
        }],
        'checks': checks,
        'not_applicable': na,
        'notes': 'See DESIGN.md.  ./check <id> regenerates constants from /repo, re-checks the pinned theorems and their assumptions, rebuilds the harness from /repo\'s working tree, and runs model and implementation on the same generated inputs.',
    }
    json.dump(m, open(os.path.join(ROOT, 'MANIFEST.json'), 'w'), indent=1)

if __name__ == '__main__':
    main()
