# Python side of coq/Base/XEnc.v: the canonical integer encodings used by the extraction cross-check
# (tools/lib.py extraction_crosscheck).  Each function mirrors the Coq definition of the same name and is
# applied to the TEXT that the extracted executable printed; the Coq side applies it to the value computed
# by vm_compute.  Also helpers that write inputs as Coq terms.
from tools.lib import coq_float, float_tok_bits, hex2f

ERR_NAMES = ['InvalidCoefficient', 'InvalidConstant', 'InvalidExponent', 'InvalidFractionalExponent',
             'InvalidFraction', 'InvalidNumber', 'PolynomialSyntaxError', 'MissingVariable',
             'TooManyVariables', 'TooFewVariables', 'UnexpectedChar', 'VariableNotFound',
             'UnexpectedToken', 'UnexpectedEndOfTokens', 'MaxIterationsReached', 'NoConvergence',
             'XInitOutOfBounds', 'NonSquareMatrix', 'SingularMatrix', 'InvalidVector', 'NumArgumentsMismatch',
             'InconsistentRowLengths', 'InvalidReshape', 'InvalidShape', 'InvalidDotShape', 'ConversionFailed']
ERR_CODE = {n: i for i, n in enumerate(ERR_NAMES)}          # = XEnc.err_code
WHY_CODE = {n: i for i, n in enumerate(['Index', 'Overflow', 'Unwrap', 'DivZero', 'Alloc', 'SliceRange', 'Fuel'])}


def err_code(name):
    """code of an error name as printed by a driver ('Other' or unknown names -> -2: never equal to a Coq code)"""
    return ERR_CODE.get(name, -2)


def enc_floats_toks(toks):
    """tokens 'n v1 .. vn' -> XEnc.enc_floats"""
    n = int(toks[0])
    assert len(toks) == n + 1, toks
    return [n] + [float_tok_bits(t) for t in toks[1:]]


def enc_line(line, ok_payload):
    """'ok <payload>' / 'err <Kind>' / 'panic' -> XEnc.enc_res; ok_payload(tokens after 'ok') -> list of ints"""
    t = line.split()
    if t[0] == 'ok':
        return [0] + ok_payload(t[1:])
    if t[0] == 'err':
        return [1, err_code(t[1])]
    if t[0] == 'panic':
        return [2]
    return [-99]                                           # driver-failure etc.: never equal to a Coq encoding


# ---- inputs as Coq terms
def cq_floats(xs):
    return '[%s]%%float' % '; '.join(coq_float(x) for x in xs)


def cq_fmat(rows):
    return '[%s]' % '; '.join(cq_floats(r) for r in rows)


def cq_Z(n):
    return '(%d)%%Z' % n


def cq_Zs(xs):
    return '[%s]%%Z' % '; '.join('(%d)' % x if x < 0 else '%d' % x for x in xs)


def cq_Zmat(rows):
    return '[%s]' % '; '.join(cq_Zs(r) for r in rows)


def cq_nat(n):
    # nat literals above 5000 make coqc print an abstract-large-number warning
    return '%d%%nat' % n if n <= 1000 else '(Z.to_nat %d%%Z)' % n


def cq_str(cps):
    """code points -> list N"""
    return '[%s]%%N' % '; '.join(str(c) for c in cps)


def cq_bool(b):
    return 'true' if b else 'false'


class Toks:
    """token reader over a case line, mirroring ocaml/svutil.ml"""
    def __init__(self, line):
        self.t = line.split()
        self.k = 0

    def word(self):
        w = self.t[self.k]
        self.k += 1
        return w

    def int(self):
        return int(self.word())

    def fl(self):
        return hex2f(self.word())

    def fvec(self):
        n = self.int()
        return [self.fl() for _ in range(n)]

    def zvec(self):
        n = self.int()
        return [self.int() for _ in range(n)]

    def fmat(self):
        h = self.int(); w = self.int()
        return h, w, [[self.fl() for _ in range(w)] for _ in range(h)]

    def zmat(self):
        h = self.int(); w = self.int()
        return h, w, [[self.int() for _ in range(w)] for _ in range(h)]

    def cpstr(self):
        n = self.int()
        return [self.int() for _ in range(n)]

    def rest(self):
        return self.t[self.k:]


def keep(case, m):
    """deterministic thinning: True for about 1/m of the case lines.  extraction_crosscheck takes every
    (eligible // XCHECK_N)-th eligible case and truncates to XCHECK_N, which drops the tail of the stream when
    the eligible count is between 1x and a few times XCHECK_N; a module that thins its own eligible set below
    XCHECK_N gets every eligible case evaluated, across all classes."""
    import zlib
    return m <= 1 or zlib.crc32(case.line.encode()) % m == 0


# ---- the two polynomial types of Model/Poly.v (shared by C01, C02, C16)
# Coq encoders (float instance) of what the drivers' show_simple / show_inter print after 'ok'
CQ_ENC_SPOLY = '(fun p => enc_opt enc_N (s_var p) ++ enc_floats (s_coefs p))'
CQ_ENC_IPOLY = ('(fun p => enc_list (fun t => float_bits (t_coef t) :: enc_list (fun ne => enc_str (fst ne) ++ [float_bits (snd ne)]) '
                '(t_vars t)) (i_terms p) ++ enc_list enc_str (i_vars p))')
CQ_CLASSES = ('(flat_map (fun c => [if u_alphabetic uclass_tab c then 1 else 0; if u_numeric uclass_tab c then 1 else 0; '
              'if is_whitespace c then 1 else 0]) %s)')


def enc_spoly_toks(t):
    """tokens after 'ok' of show_simple: <var-cp|-> <n> <coef>*"""
    out = [0] if t[0] == '-' else [1, int(t[0])]
    return out + enc_floats_toks(t[1:])


def enc_ipoly_toks(t):
    """tokens after 'ok' of show_inter: NTERMS {COEF NVARS {NAMECPS EXP}} | NVARS {NAMECPS}"""
    k = [0]

    def nxt():
        k[0] += 1
        return t[k[0] - 1]

    def name():
        n = int(nxt())
        return [n] + [int(nxt()) for _ in range(n)]
    nt = int(nxt())
    out = [nt]
    for _ in range(nt):
        out.append(float_tok_bits(nxt()))
        nv = int(nxt())
        out.append(nv)
        for _ in range(nv):
            out += name()
            out.append(float_tok_bits(nxt()))
    assert nxt() == '|'
    nv = int(nxt())
    out.append(nv)
    for _ in range(nv):
        out += name()
    assert k[0] == len(t), t
    return out


def enc_classes_line(line):
    """'101 010 ..' -> flat list of 0/1"""
    return [int(ch) for tok in line.split() for ch in tok]


def res_tok(tok):
    """single-token outcome 'hex' / 'nan' / 'err:Kind' / 'panic' -> enc_res enc_float"""
    if tok == 'panic':
        return [2]
    if tok.startswith('err:'):
        return [1, err_code(tok[4:])]
    return [0, float_tok_bits(tok)]


def big_exponent(cps):
    """a '^' followed (within the term) by a number of >= 4 digits: parse_simple then builds a coefficient list with
    tens of thousands of entries, which the executable handles but which overflows the stack of Coq's VM"""
    import re
    return re.search(r'\^[^+\-]*\d{4}', ''.join(chr(c) for c in cps)) is not None


# ---- polynomial VALUES on the wire (C06, C07: drivers' spoly / ipoly readers), as Coq record terms (float instance)
def cq_spoly_rec(t):
    """Toks positioned at 'n c0 ..' -> spoly float with variable 'x' (as the drivers build it)"""
    return '{| s_coefs := %s; s_var := Some 120%%N |}' % cq_floats(t.fvec())


def cq_ipoly_rec(t):
    """Toks positioned at 'nt {coef nv {name pow}} nvars {name}' -> ipoly float"""
    terms = []
    for _ in range(t.int()):
        c = t.fl()
        vs = []
        for _ in range(t.int()):
            nm = t.cpstr()
            vs.append('(%s, %s%%float)' % (cq_str(nm), coq_float(t.fl())))
        terms.append('{| t_coef := %s%%float; t_vars := [%s] |}' % (coq_float(c), '; '.join(vs)))
    names = [cq_str(t.cpstr()) for _ in range(t.int())]
    return '{| i_terms := [%s]; i_vars := [%s] |}' % ('; '.join(terms), '; '.join(names))


# the solver drivers name five error kinds; every other one is printed 'Other' -> -2 on both sides
CQ_ENC_SOLVER = ('(fun r => match r with Ok v => [0; float_bits v] | Err EMaxIterationsReached => [1; 14] | Err ENoConvergence => [1; 15] '
                 '| Err EXInitOutOfBounds => [1; 16] | Err ETooManyVariables => [1; 8] | Err EVariableNotFound => [1; 11] '
                 '| Err _ => [1; -2] | Panic _ => [2] end)')


def enc_solver_line(line):
    t = line.split()
    if t[0] == 'ok':
        return [0, float_tok_bits(t[1])]
    if t[0] == 'panic':
        return [2]
    assert t[0] == 'err' and len(t) == 2, line
    return [1, {'MaxIterationsReached': 14, 'NoConvergence': 15, 'XInitOutOfBounds': 16,
                'FunctionError:TooManyVariables': 8, 'FunctionError:VariableNotFound': 11}.get(t[1], -2)]
