#!/usr/bin/env python3
# tools/seedtest.py <dir-with-patch.diff,demo.rs,meta.json> [more dirs]
# Development aid: verifies a planted bug in a scratch worktree of /repo (never in /repo itself):
#   the existing suite passes with it, its demonstration fails with it and passes without it;
# then runs ./check <property> against the mutated tree (VERIF_REPO) and records whether it was caught.
# Confirmed seeds are stored under /verif/seeded/<id>/ (patch.diff, demo.rs, meta.json).
import json, os, re, shutil, subprocess, sys, time

ROOT = os.path.dirname(os.path.dirname(os.path.abspath(__file__)))
WT = '/root/seedwork/mutwt'
ENV = dict(os.environ, CARGO_NET_OFFLINE='true')


def sh(cmd, cwd=None, env=None, timeout=3000):
    p = subprocess.run(cmd, shell=True, cwd=cwd, env=env or ENV, stdout=subprocess.PIPE, stderr=subprocess.STDOUT,
                       text=True, errors='replace', timeout=timeout)
    return p.returncode, p.stdout


def ensure_wt():
    if not os.path.isdir(WT):
        rc, out = sh('git -C /repo worktree add -q --detach %s HEAD' % WT)
        assert rc == 0, out
    sh('git checkout -q --detach $(git -C /repo rev-parse HEAD) && git checkout -- . && git clean -fdq -e target', cwd=WT)


def suite_passes():
    rc, out = sh('cargo test --workspace --offline 2>&1', cwd=WT)
    n = sum(int(m) for m in re.findall(r'^test result: ok\. (\d+) passed', out, re.M))
    bad = len(re.findall(r'FAILED|^error', out, re.M))
    return n, bad


def run_demo(meta):
    flags = '--cfg spindalis_verif' if 'spindalis_verif' in meta.get('demo_cmd', '') else ''
    env = dict(ENV, RUSTFLAGS=flags) if flags else ENV
    rc, out = sh('cargo test --offline -p spindalis --test demo_seed 2>&1', cwd=WT, env=env)
    return rc == 0, out[-600:]


def main():
    results = []
    for d in sys.argv[1:]:
        d = os.path.abspath(d.rstrip('/'))
        sid = os.path.basename(d)
        meta = json.load(open(os.path.join(d, 'meta.json')))
        pid = meta.get('property', sid.split('-')[0])
        pid = re.match(r'C\d+', pid).group(0) if re.match(r'C\d+', pid) else sid.split('-')[0]
        ensure_wt()
        rc, out = sh('git apply --whitespace=nowarn %s' % os.path.join(d, 'patch.diff'), cwd=WT)
        if rc != 0:
            results.append((sid, 'patch does not apply: ' + out[-200:])); print(results[-1], flush=True); continue
        n, bad = suite_passes()
        shutil.copy(os.path.join(d, 'demo.rs'), os.path.join(WT, 'spindalis', 'tests', 'demo_seed.rs'))
        demo_ok_mut, tail_mut = run_demo(meta)
        os.remove(os.path.join(WT, 'spindalis', 'tests', 'demo_seed.rs'))
        t0 = time.time()
        tier = os.environ.get('SEED_TIER', 'quick')
        rc, out = sh('./check %s --tier %s' % (pid, tier), cwd=ROOT, env=dict(os.environ, VERIF_REPO=WT), timeout=6000)
        lines = out.strip().splitlines()
        vio = [l for l in lines if l.startswith('VIOLATION')]
        caught = rc != 0 and bool(vio)
        replay = None
        if vio:
            m = re.search(r'replay=(\S+)', vio[0])
            if m and os.path.exists(os.path.join(ROOT, m.group(1))):
                rp = json.load(open(os.path.join(ROOT, m.group(1))))
                replay = {'line': vio[0], 'clause': rp.get('clause') or rp.get('what'),
                          'describe': rp.get('describe') or (rp.get('correspondence') or {}).get('describe')}
                os.remove(os.path.join(ROOT, m.group(1)))
        sh('git checkout -- .', cwd=WT)
        shutil.copy(os.path.join(d, 'demo.rs'), os.path.join(WT, 'spindalis', 'tests', 'demo_seed.rs'))
        demo_ok_clean, _ = run_demo(meta)
        os.remove(os.path.join(WT, 'spindalis', 'tests', 'demo_seed.rs'))
        confirmed = (n == 244 and bad == 0 and not demo_ok_mut and demo_ok_clean)
        meta.update({'confirmed_by_lead': confirmed, 'verified_at_repo_commit': subprocess.run('git -C /repo rev-parse --short HEAD', shell=True, stdout=subprocess.PIPE, text=True).stdout.strip(), 'suite_passed_with_mutation': n, 'demo_fails_with_mutation': not demo_ok_mut,
                     'demo_passes_without_mutation': demo_ok_clean, 'check_cmd': 'VERIF_REPO=<worktree with patch> ./check %s --tier %s' % (pid, tier),
                     'caught_by_check': caught, 'check_summary': lines[-1] if lines else '', 'check_replay': replay,
                     'check_wall_s': round(time.time() - t0, 1)})
        if confirmed:
            dst = os.path.join(ROOT, 'seeded', sid)
            os.makedirs(dst, exist_ok=True)
            if os.path.abspath(d) != os.path.abspath(dst):
                shutil.copy(os.path.join(d, 'patch.diff'), dst)
                shutil.copy(os.path.join(d, 'demo.rs'), dst)
            json.dump(meta, open(os.path.join(dst, 'meta.json'), 'w'), indent=1)
        results.append((sid, 'confirmed=%s caught=%s | %s | %s' % (confirmed, caught, (vio[0][:100] if vio else 'no VIOLATION line'),
                                                                lines[-1][-110:] if lines else '')))
        print(results[-1], flush=True)
    sh('git checkout -- . && git clean -fdq -e target', cwd=WT)


if __name__ == '__main__':
    main()
