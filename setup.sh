#!/bin/sh
# Build the framework from files on disk only (offline): all Coq proofs, the
# extracted model executable, and the Rust correspondence harness.
set -e
cd "$(dirname "$0")"
export CARGO_NET_OFFLINE=true
mkdir -p build/ocaml evidence replays
python3 tools/extract_consts.py >/dev/null 2>&1 || true
( cd coq && coq_makefile -f _CoqProject -o Makefile >/dev/null && timeout 3000 make -j16 >../build/coq_build.log 2>&1 ) || { tail -50 build/coq_build.log; exit 1; }
python3 - <<'PY'
import sys
sys.path.insert(0, '.')
from tools import lib
ok, log = lib.build_model_cli(force=True)
print('model_cli:', 'ok' if ok else log)
ok2, log2 = lib.build_harness('debug')
print('harness debug:', 'ok' if ok2 else log2)
ok3, log3 = lib.build_harness('release')
print('harness release:', 'ok' if ok3 else log3)
sys.exit(0 if ok and ok2 and ok3 else 1)
PY
