#!/bin/sh
# Build the framework from files on disk only (offline): all Coq proofs, the
# extracted model executable, and the Rust correspondence harness.
set -e
cd "$(dirname "$0")"
export CARGO_NET_OFFLINE=true
mkdir -p build/ocaml evidence replays
python3 tools/extract_consts.py >/dev/null 2>&1 || true
# Coq: only the dependency closures of the registered properties (unregistered work in progress cannot break setup)
python3 - <<'PY' || exit 1
import json, subprocess, sys
sys.path.insert(0, '.')
from tools import lib
lib.coq_makefile()
pids = [c['property_id'] for c in json.load(open('MANIFEST.json'))['checks']]
targets = ' '.join('Properties/%s.vo' % p for p in pids) + ' Extract/Keep.vo'
ok, log = lib.coq_build(targets, timeout=6000)
open('build/coq_build.log', 'w').write(log)
if not ok:
    print(log[-3000:])
sys.exit(0 if ok else 1)
PY
python3 - <<'PY'
import os, sys, json
sys.path.insert(0, '.')
from tools import lib
bad = 0
for c in json.load(open('MANIFEST.json'))['checks']:
    pid = c['property_id']
    ok, log = lib.build_model_cli(pid, force=True)
    print(pid, 'model_cli:', 'ok' if ok else log)
    ok2, log2 = lib.build_harness(pid, 'debug')
    print(pid, 'harness debug:', 'ok' if ok2 else log2)
    bad += (not ok) + (not ok2)
sys.exit(1 if bad else 0)
PY
